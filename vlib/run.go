// Package vlib is the shared runtime of the model3d monitors: seeded case
// scheduling, violation/witness bookkeeping, known-finding matching, evidence
// writing and watchdogs. See /verif/DESIGN.md section 0.
package vlib

import (
	"bufio"
	"encoding/json"
	"flag"
	"fmt"
	"hash/fnv"
	"math/rand"
	"os"
	"path/filepath"
	"runtime"
	"runtime/debug"
	"sort"
	"strconv"
	"strings"
	"sync"
	"sync/atomic"
	"time"
)

// Exit codes of a monitor binary (interpreted by cmd/vcheck).
const (
	ExitHeld         = 0
	ExitViolation    = 1
	ExitInconclusive = 10
	ExitWatchdog     = 11
)

// Finding is one line of /verif/known_findings.jsonl.
type Finding struct {
	Property string `json:"property"`
	Key      string `json:"key"`
	Status   string `json:"status"` // "known" or "fixed"
	Commit   string `json:"commit,omitempty"`
	What     string `json:"what"`
}

type violation struct {
	Key     string      `json:"key"`
	What    string      `json:"what"`
	Section string      `json:"section"`
	Index   int         `json:"index"`
	Witness interface{} `json:"witness"`
	Count   int         `json:"count"`
}

// Run is the state of one monitor execution.
type Run struct {
	ID    string
	Level string
	Tier  string
	Seed  int64

	evidencePath string
	replayDir    string
	knownPath    string
	caseLogPath  string
	replayFile   string
	watchdogMul  float64
	workers      int
	quickScale   float64

	replaySection string
	replayIndex   int

	mu          sync.Mutex
	start       time.Time
	counters    map[string]int64
	maxima      map[string]float64
	distinct    map[uint64]struct{}
	samples     []interface{}
	sampleKeys  map[string]int
	violations  map[string]*violation
	violOrder   []string
	undecided   map[string]int64
	evaluations int64
	rule        string
	assumptions []string
	required    map[string]int64
	notes       map[string]interface{}
	caseLog     *os.File
	caseLogMu   sync.Mutex

	active sync.Map // caseID -> *activeCase
	caseID int64
}

type activeCase struct {
	section string
	index   int
	started time.Time
	limit   time.Duration
}

// Start parses the common flags and returns the run. level is the evidence
// level ("exploration", "fault_enumeration", ...).
func Start(id, level string) *Run {
	r := &Run{ID: id, Level: level}
	var seed int64
	flag.StringVar(&r.Tier, "tier", envOr("VERIF_TIER", "quick"), "quick|thorough")
	flag.Int64Var(&seed, "seed", envSeed(), "seed")
	flag.StringVar(&r.evidencePath, "evidence", "", "evidence output path")
	flag.StringVar(&r.replayDir, "replays", "", "replay output dir")
	flag.StringVar(&r.knownPath, "known", "", "known findings file")
	flag.StringVar(&r.caseLogPath, "caselog", "", "append-only case log")
	flag.StringVar(&r.replayFile, "replay", "", "replay a recorded violation")
	flag.Float64Var(&r.watchdogMul, "watchdog-mul", 1, "watchdog multiplier")
	flag.IntVar(&r.workers, "workers", 0, "worker goroutines for parallel sections (0 = GOMAXPROCS)")
	flag.Parse()
	if r.Tier != "quick" && r.Tier != "thorough" {
		fmt.Fprintf(os.Stderr, "bad tier %q\n", r.Tier)
		os.Exit(64)
	}
	r.Seed = seed
	if r.workers <= 0 {
		r.workers = runtime.GOMAXPROCS(0)
	}
	r.start = time.Now()
	r.counters = map[string]int64{}
	r.maxima = map[string]float64{}
	r.distinct = map[uint64]struct{}{}
	r.sampleKeys = map[string]int{}
	r.violations = map[string]*violation{}
	r.undecided = map[string]int64{}
	r.required = map[string]int64{}
	r.notes = map[string]interface{}{}
	if r.caseLogPath != "" {
		f, err := os.OpenFile(r.caseLogPath, os.O_CREATE|os.O_WRONLY|os.O_APPEND, 0644)
		if err == nil {
			r.caseLog = f
		}
	}
	if r.replayFile != "" {
		data, err := os.ReadFile(r.replayFile)
		if err != nil {
			fmt.Fprintf(os.Stderr, "cannot read replay: %v\n", err)
			os.Exit(64)
		}
		var v struct {
			Seed    int64  `json:"seed"`
			Tier    string `json:"tier"`
			Section string `json:"section"`
			Index   int    `json:"index"`
		}
		if err := json.Unmarshal(data, &v); err != nil {
			fmt.Fprintf(os.Stderr, "cannot parse replay: %v\n", err)
			os.Exit(64)
		}
		r.Seed = v.Seed
		if v.Tier != "" {
			r.Tier = v.Tier
		}
		r.replaySection = v.Section
		r.replayIndex = v.Index
	}
	go r.watchdog()
	return r
}

func envOr(k, d string) string {
	if v := os.Getenv(k); v != "" {
		return v
	}
	return d
}

func envSeed() int64 {
	var s int64 = 1
	if v := os.Getenv("VERIF_SEED"); v != "" {
		fmt.Sscan(v, &s)
	}
	return s
}

// Quick reports whether this is the quick tier.
func (r *Run) Quick() bool { return r.Tier == "quick" }

// Replaying reports whether the run replays one recorded case.
func (r *Run) Replaying() bool { return r.replayFile != "" }

// ScaleQuick multiplies the case count of every section by f in the quick tier
// (cases keep their index-derived sub-seeds, so a larger budget is a superset of
// a smaller one). Sections with SectionOpts.NoScale are left alone.
func (r *Run) ScaleQuick(f float64) { r.quickScale = f }

// N picks a budget by tier.
func (r *Run) N(quick, thorough int) int {
	if r.Quick() {
		return quick
	}
	return thorough
}

// Rule records how cases are generated and what makes one non-trivial.
func (r *Run) Rule(s string) { r.rule = s }

// Assume records an assumption for the evidence file.
func (r *Run) Assume(s string) { r.assumptions = append(r.assumptions, s) }

// Require declares that counter name must reach at least min by the end of
// the run, otherwise the run is inconclusive.
func (r *Run) Require(name string, min int64) {
	r.mu.Lock()
	r.required[name] = min
	r.mu.Unlock()
}

// Note stores an arbitrary value in the evidence coverage.
func (r *Run) Note(name string, v interface{}) {
	r.mu.Lock()
	r.notes[name] = v
	r.mu.Unlock()
}

func subSeed(seed int64, section string, idx int) int64 {
	h := fnv.New64a()
	fmt.Fprintf(h, "%d|%s|%d", seed, section, idx)
	return int64(h.Sum64() & 0x7fffffffffffffff)
}

// Case is handed to each case function.
type Case struct {
	R       *Run
	Section string
	Index   int
	Rng     *rand.Rand
	SubSeed int64
}

// SectionOpts configure a section.
type SectionOpts struct {
	// Sequential runs the cases one after another on the calling goroutine
	// (needed when the case itself controls concurrency or GOMAXPROCS, or uses
	// the library's global RNG and wants replay fidelity).
	Sequential bool
	// Watchdog is the per-case wall-clock limit (default 120 s). Firing is
	// never a verdict by itself, see DESIGN 0.5.
	Watchdog time.Duration
	// SeedGlobalRand calls rand.Seed(subSeed) before each case (only
	// meaningful with Sequential).
	SeedGlobalRand bool
	// NoScale exempts the section from Run.ScaleQuick (complete enumerations).
	NoScale bool
}

// Section runs n seeded cases. In replay mode only the recorded case runs.
func (r *Run) Section(name string, n int, opts SectionOpts, fn func(c *Case)) {
	if r.Quick() && r.quickScale > 0 && !opts.NoScale {
		n = int(float64(n)*r.quickScale + 0.5)
	}
	if d, _ := strconv.Atoi(os.Getenv("VERIF_BUDGET_DIV")); d > 1 && n > 24 {
		// diagnostic runs only (tools/coverage.sh): a fraction of the cases; such a run
		// usually ends INCONCLUSIVE because the Require counters are not reached
		if n = n / d; n < 24 {
			n = 24
		}
	}
	if only := os.Getenv("VERIF_ONLY_SECTION"); only != "" && !strings.HasPrefix(name, only) && r.replayFile == "" {
		// diagnostic runs only: the other sections are skipped and the run ends INCONCLUSIVE
		// when their Require counters are missing
		return
	}
	if os.Getenv("VERIF_TIMING") != "" {
		t0 := time.Now()
		defer func() {
			fmt.Fprintf(os.Stderr, "TIMING section=%s cases=%d wall=%.1fs\n", name, n, time.Since(t0).Seconds())
		}()
	}
	if r.Replaying() {
		if name != r.replaySection {
			return
		}
		r.runCase(name, r.replayIndex, opts, fn)
		return
	}
	if opts.Sequential || r.workers == 1 {
		for i := 0; i < n; i++ {
			r.runCase(name, i, opts, fn)
		}
		return
	}
	var next int64 = -1
	var wg sync.WaitGroup
	for w := 0; w < r.workers; w++ {
		wg.Add(1)
		go func() {
			defer wg.Done()
			for {
				i := int(atomic.AddInt64(&next, 1))
				if i >= n {
					return
				}
				r.runCase(name, i, opts, fn)
			}
		}()
	}
	wg.Wait()
}

func (r *Run) runCase(name string, i int, opts SectionOpts, fn func(c *Case)) {
	ss := subSeed(r.Seed, name, i)
	c := &Case{R: r, Section: name, Index: i, SubSeed: ss, Rng: rand.New(rand.NewSource(ss))}
	if opts.SeedGlobalRand {
		rand.Seed(ss)
	}
	limit := opts.Watchdog
	if limit == 0 {
		limit = 120 * time.Second
	}
	limit = time.Duration(float64(limit) * r.watchdogMul)
	id := atomic.AddInt64(&r.caseID, 1)
	r.active.Store(id, &activeCase{section: name, index: i, started: time.Now(), limit: limit})
	r.logCase(name, i)
	atomic.AddInt64(&r.evaluations, 1)
	defer r.active.Delete(id)
	defer func() {
		if e := recover(); e != nil {
			stack := string(debug.Stack())
			c.Violation("panic/"+panicSite(stack), fmt.Sprintf("panic in library code: %v", e),
				map[string]interface{}{"panic": fmt.Sprint(e), "stack": trimStack(stack)})
		}
	}()
	fn(c)
}

func (r *Run) logCase(section string, idx int) {
	if r.caseLog == nil {
		return
	}
	r.caseLogMu.Lock()
	fmt.Fprintf(r.caseLog, "%s %d\n", section, idx)
	r.caseLogMu.Unlock()
}

// LogInput appends raw witness material to the case log before a crash-prone call.
func (r *Run) LogInput(s string) {
	if r.caseLog == nil {
		return
	}
	r.caseLogMu.Lock()
	fmt.Fprintf(r.caseLog, "# %s\n", s)
	r.caseLogMu.Unlock()
}

// panicSite extracts the innermost model3d function from a stack trace so
// that panics are keyed by the library site, not by the monitor.
func panicSite(stack string) string {
	sc := bufio.NewScanner(strings.NewReader(stack))
	for sc.Scan() {
		line := sc.Text()
		if strings.HasPrefix(line, "github.com/unixpickle/model3d/") {
			line = strings.TrimPrefix(line, "github.com/unixpickle/model3d/")
			if i := strings.LastIndex(line, "("); i > 0 {
				line = line[:i]
			}
			// strip generic instantiation noise
			if i := strings.Index(line, "[...]"); i >= 0 {
				line = strings.Replace(line, "[...]", "", -1)
			}
			return line
		}
	}
	return "unknown"
}

func trimStack(s string) string {
	lines := strings.Split(s, "\n")
	if len(lines) > 40 {
		lines = lines[:40]
	}
	return strings.Join(lines, "\n")
}

func (r *Run) watchdog() {
	for {
		time.Sleep(500 * time.Millisecond)
		now := time.Now()
		r.active.Range(func(k, v interface{}) bool {
			a := v.(*activeCase)
			if now.Sub(a.started) > a.limit {
				// Write a replay descriptor and leave: the driver re-runs the case alone.
				path := r.writeReplay(&violation{Key: "progress/" + a.section, What: fmt.Sprintf("case did not finish within %v", a.limit), Section: a.section, Index: a.index})
				fmt.Printf("WATCHDOG property=%s section=%s index=%d limit=%v replay=%s\n", r.ID, a.section, a.index, a.limit, path)
				buf := make([]byte, 1<<20)
				n := runtime.Stack(buf, true)
				os.Stderr.Write(buf[:n])
				os.Exit(ExitWatchdog)
			}
			return true
		})
	}
}

// Count adds n to a named counter shown in the evidence.
func (r *Run) Count(name string, n int64) {
	r.mu.Lock()
	r.counters[name] += n
	r.mu.Unlock()
}

// Max records the maximum of a named quantity (e.g. worst residual).
func (r *Run) Max(name string, v float64) {
	r.mu.Lock()
	if old, ok := r.maxima[name]; !ok || v > old {
		r.maxima[name] = v
	}
	r.mu.Unlock()
}

// Nontrivial records a distinct non-trivial case by signature.
func (r *Run) Nontrivial(sig string) {
	h := fnv.New64a()
	h.Write([]byte(sig))
	k := h.Sum64()
	r.mu.Lock()
	r.distinct[k] = struct{}{}
	r.mu.Unlock()
}

// Sample keeps up to perKind literal cases per kind for the evidence file.
func (r *Run) Sample(kind string, perKind int, v interface{}) {
	r.mu.Lock()
	if r.sampleKeys[kind] < perKind {
		r.sampleKeys[kind]++
		r.samples = append(r.samples, map[string]interface{}{"kind": kind, "case": v})
	}
	r.mu.Unlock()
}

// Undecided counts a case (or clause) that the oracle declined to decide.
func (r *Run) Undecided(reason string) {
	r.mu.Lock()
	r.undecided[reason]++
	r.mu.Unlock()
}

func (c *Case) Count(name string, n int64) { c.R.Count(name, n) }
func (c *Case) Undecided(reason string)    { c.R.Undecided(reason) }

// Evaluations adds executions that a single Case ran on its own (child-process batches).
func (c *Case) Evaluations(n int64)        { atomic.AddInt64(&c.R.evaluations, n) }
func (c *Case) Nontrivial(sig string)      { c.R.Nontrivial(sig) }
func (c *Case) Max(name string, v float64) { c.R.Max(name, v) }
func (c *Case) Sample(kind string, n int, v interface{}) {
	c.R.Sample(kind, n, v)
}

// Violation records a refuting observation. key is "api/clause"; the first
// witness per key is kept.
func (c *Case) Violation(key, what string, witness interface{}) {
	r := c.R
	r.mu.Lock()
	defer r.mu.Unlock()
	if v, ok := r.violations[key]; ok {
		v.Count++
		return
	}
	r.violations[key] = &violation{Key: key, What: what, Section: c.Section, Index: c.Index, Witness: witness, Count: 1}
	r.violOrder = append(r.violOrder, key)
}

// Violationf is Violation with a formatted message.
func (c *Case) Violationf(key string, witness interface{}, format string, args ...interface{}) {
	c.Violation(key, fmt.Sprintf(format, args...), witness)
}

func (r *Run) loadKnown() map[string]Finding {
	res := map[string]Finding{}
	if r.knownPath == "" {
		return res
	}
	f, err := os.Open(r.knownPath)
	if err != nil {
		return res
	}
	defer f.Close()
	sc := bufio.NewScanner(f)
	sc.Buffer(make([]byte, 1<<20), 1<<20)
	for sc.Scan() {
		line := strings.TrimSpace(sc.Text())
		if line == "" || strings.HasPrefix(line, "#") {
			continue
		}
		var k Finding
		if json.Unmarshal([]byte(line), &k) == nil && k.Property == r.ID && k.Status == "known" {
			res[k.Key] = k
		}
	}
	return res
}

func sanitize(s string) string {
	var b strings.Builder
	for _, ch := range s {
		switch {
		case ch >= 'a' && ch <= 'z', ch >= 'A' && ch <= 'Z', ch >= '0' && ch <= '9', ch == '-', ch == '_', ch == '.':
			b.WriteRune(ch)
		default:
			b.WriteByte('_')
		}
	}
	return b.String()
}

func (r *Run) writeReplay(v *violation) string {
	dir := r.replayDir
	if dir == "" {
		dir = filepath.Join("replays", r.ID)
	}
	os.MkdirAll(dir, 0755)
	path := filepath.Join(dir, fmt.Sprintf("%s-s%d-%s.json", sanitize(v.Key), r.Seed, r.Tier))
	obj := map[string]interface{}{
		"property": r.ID, "key": v.Key, "what": v.What, "seed": r.Seed, "tier": r.Tier,
		"section": v.Section, "index": v.Index, "witness": v.Witness, "count": v.Count,
	}
	data, err := json.MarshalIndent(obj, "", " ")
	if err != nil {
		obj["witness"] = fmt.Sprintf("%+v", v.Witness)
		data, _ = json.MarshalIndent(obj, "", " ")
	}
	os.WriteFile(path, data, 0644)
	return path
}

// Finish writes the evidence file, prints verdict lines and exits.
func (r *Run) Finish() {
	r.mu.Lock()
	defer r.mu.Unlock()
	known := r.loadKnown()
	nViol := 0
	nKnown := 0
	sort.Strings(r.violOrder)
	var violList []map[string]interface{}
	for _, key := range r.violOrder {
		v := r.violations[key]
		if k, ok := known[key]; ok {
			fmt.Printf("KNOWN-FINDING: property=%s key=%s %s (observed %d times this run: %s)\n", r.ID, key, k.What, v.Count, v.What)
			nKnown++
			continue
		}
		path := r.writeReplay(v)
		fmt.Printf("VIOLATION property=%s replay=%s key=%s count=%d %s\n", r.ID, path, key, v.Count, oneLine(v.What))
		nViol++
		violList = append(violList, map[string]interface{}{"key": key, "what": v.What, "count": v.Count, "replay": path})
	}

	var inconclusive []string
	reqNames := make([]string, 0, len(r.required))
	for k := range r.required {
		reqNames = append(reqNames, k)
	}
	sort.Strings(reqNames)
	if !r.Replaying() {
		for _, k := range reqNames {
			if r.counters[k] < r.required[k] {
				inconclusive = append(inconclusive, fmt.Sprintf("%s=%d<%d", k, r.counters[k], r.required[k]))
			}
		}
	}

	cov := map[string]interface{}{
		"evaluations":         r.evaluations,
		"distinct_nontrivial": len(r.distinct),
		"rule":                r.rule,
		"samples":             r.samples,
		"counters":            r.counters,
		"undecided":           r.undecided,
	}
	if len(r.maxima) > 0 {
		cov["maxima"] = r.maxima
	}
	for k, v := range r.notes {
		cov[k] = v
	}
	if len(violList) > 0 {
		cov["violation_list"] = violList
	}
	if len(inconclusive) > 0 {
		cov["inconclusive"] = inconclusive
	}
	if r.samples == nil {
		cov["samples"] = []interface{}{}
	}
	ev := map[string]interface{}{
		"property_id":    r.ID,
		"tier":           r.Tier,
		"seed":           r.Seed,
		"level":          r.Level,
		"coverage":       cov,
		"assumptions":    r.assumptions,
		"wall_s":         time.Since(r.start).Seconds(),
		"violations":     nViol,
		"known_findings": nKnown,
	}
	if r.assumptions == nil {
		ev["assumptions"] = []string{}
	}
	if r.evidencePath != "" && !r.Replaying() {
		os.MkdirAll(filepath.Dir(r.evidencePath), 0755)
		data, err := json.MarshalIndent(ev, "", " ")
		if err != nil {
			fmt.Fprintf(os.Stderr, "evidence marshal: %v\n", err)
			os.Exit(70)
		}
		tmp := r.evidencePath + ".tmp"
		os.WriteFile(tmp, data, 0644)
		os.Rename(tmp, r.evidencePath)
	}
	fmt.Printf("SUMMARY property=%s tier=%s seed=%d evaluations=%d distinct_nontrivial=%d violations=%d known=%d undecided=%d wall=%.1fs\n",
		r.ID, r.Tier, r.Seed, r.evaluations, len(r.distinct), nViol, nKnown, sumMap(r.undecided), time.Since(r.start).Seconds())
	if nViol > 0 {
		os.Exit(ExitViolation)
	}
	if len(inconclusive) > 0 {
		fmt.Printf("INCONCLUSIVE property=%s reason=%s\n", r.ID, strings.Join(inconclusive, ","))
		os.Exit(ExitInconclusive)
	}
	os.Exit(ExitHeld)
}

func sumMap(m map[string]int64) int64 {
	var s int64
	for _, v := range m {
		s += v
	}
	return s
}

func oneLine(s string) string {
	s = strings.Replace(s, "\n", " ", -1)
	if len(s) > 300 {
		s = s[:300] + "..."
	}
	return s
}
