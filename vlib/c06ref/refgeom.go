package c06ref

// C06 reference geometry (3D): closed-form signed distance, nearest point,
// nearest boundary piece and outward normal for every 3D primitive, written
// from the definitions and NOT through any method of the library's coordinate
// or shape types (plain field arithmetic only), see DESIGN 0.4 and C06.
//
// Conventions: SD is positive inside, negative outside; Normal is the unit
// outward normal at the nearest boundary point and is meaningful only when
// Smooth is set.

import (
	"math"
	"math/rand"
)

func V3(x, y, z float64) C3       { return C3{X: x, Y: y, Z: z} }
func Add3(a, b C3) C3             { return C3{X: a.X + b.X, Y: a.Y + b.Y, Z: a.Z + b.Z} }
func Sub3(a, b C3) C3             { return C3{X: a.X - b.X, Y: a.Y - b.Y, Z: a.Z - b.Z} }
func Scale3(a C3, s float64) C3   { return C3{X: a.X * s, Y: a.Y * s, Z: a.Z * s} }
func Dot3(a, b C3) float64        { return a.X*b.X + a.Y*b.Y + a.Z*b.Z }
func Len3(a C3) float64           { return math.Sqrt(a.X*a.X + a.Y*a.Y + a.Z*a.Z) }
func Dist3(a, b C3) float64       { return Len3(Sub3(a, b)) }
func Lerp3(a, b C3, t float64) C3 { return Add3(Scale3(a, 1-t), Scale3(b, t)) }
func Cross3(a, b C3) C3 {
	return C3{X: a.Y*b.Z - a.Z*b.Y, Y: a.Z*b.X - a.X*b.Z, Z: a.X*b.Y - a.Y*b.X}
}
func Unit3(a C3) C3 { return Scale3(a, 1/Len3(a)) }

// MaxAbs3 is the largest absolute coordinate.
func MaxAbs3(a C3) float64 {
	return math.Max(math.Abs(a.X), math.Max(math.Abs(a.Y), math.Abs(a.Z)))
}

// AnyPerp3 returns a unit vector orthogonal to u (u need not be unit).
func AnyPerp3(u C3) C3 {
	ax, ay, az := math.Abs(u.X), math.Abs(u.Y), math.Abs(u.Z)
	var e C3
	switch {
	case ax <= ay && ax <= az:
		e = C3{X: 1}
	case ay <= az:
		e = C3{Y: 1}
	default:
		e = C3{Z: 1}
	}
	return Unit3(Cross3(u, e))
}

// RandUnit3 draws a uniformly distributed unit vector.
func RandUnit3(rng *rand.Rand) C3 {
	for {
		v := V3(rng.NormFloat64(), rng.NormFloat64(), rng.NormFloat64())
		if l := Len3(v); l > 1e-3 {
			return Scale3(v, 1/l)
		}
	}
}

// RandPerp3 draws a uniformly distributed unit vector orthogonal to unit u.
func RandPerp3(rng *rand.Rand, u C3) C3 {
	e1 := AnyPerp3(u)
	e2 := Cross3(u, e1)
	a := rng.Float64() * 2 * math.Pi
	return Add3(Scale3(e1, math.Cos(a)), Scale3(e2, math.Sin(a)))
}

// RefEval3 is the reference answer at one query point.
type RefEval3 struct {
	SD     float64 // signed distance, > 0 inside
	Piece  int     // nearest boundary piece (shape specific id)
	Smooth bool    // nearest point is in the relative interior of a smooth piece and unique up to Sing
	Normal C3      // outward unit normal at the nearest point (valid iff Smooth)
	Near   C3      // one nearest boundary point
	Sing   float64 // distance of the query from the symmetry set where the nearest point is not unique (+Inf if none)
	Region string  // human readable name of the piece, for evidence counters
}

// RefShape3 is an independent model of a 3D solid.
type RefShape3 interface {
	Eval(p C3) RefEval3
	Size() float64               // largest extent
	Feature() float64            // smallest feature length
	Bounds() (C3, C3)            // a box containing the shape
	Special(rng *rand.Rand) C3   // hostile query: symmetry axis, centre, apex, rim, face centre, ...
	Boundary(rng *rand.Rand) C3  // a boundary point from the parametrisation (not from Eval)
	Describe() map[string]string // hex parameters for witnesses
}

func hex3(c C3) string { return Hex(c.X) + "," + Hex(c.Y) + "," + Hex(c.Z) }

// radial splits d into its part along unit u and the unit radial direction.
// When the radial part is so small that it is mostly rounding noise the
// direction is re-orthogonalised (or replaced by an arbitrary perpendicular):
// rho itself is returned unchanged, only the direction is sanitised.
func radial(d, u C3) (h, rho float64, w, wh C3) {
	h = Dot3(d, u)
	w = Sub3(d, Scale3(u, h))
	rho = Len3(w)
	if rho > 0 {
		wh = Scale3(w, 1/rho)
		wh = Sub3(wh, Scale3(u, Dot3(wh, u)))
		if l := Len3(wh); l > 0.5 {
			wh = Scale3(wh, 1/l)
			return
		}
	}
	wh = AnyPerp3(u)
	return
}

// ---------------------------------------------------------------------------
// sphere

type RefSphere struct {
	C C3
	R float64
}

func (s RefSphere) Eval(p C3) RefEval3 {
	d := Sub3(p, s.C)
	r := Len3(d)
	e := RefEval3{SD: s.R - r, Sing: r, Region: "surface"}
	if r > 0 {
		e.Smooth = true
		e.Normal = Scale3(d, 1/r)
		e.Near = Add3(s.C, Scale3(d, s.R/r))
	} else {
		e.Piece = -1
		e.Region = "centre"
		e.Near = Add3(s.C, V3(0, 0, s.R))
	}
	return e
}
func (s RefSphere) Size() float64    { return 2 * s.R }
func (s RefSphere) Feature() float64 { return s.R }
func (s RefSphere) Bounds() (C3, C3) {
	return Sub3(s.C, V3(s.R, s.R, s.R)), Add3(s.C, V3(s.R, s.R, s.R))
}
func (s RefSphere) Special(rng *rand.Rand) C3 {
	switch rng.Intn(4) {
	case 0:
		return s.C
	case 1: // on an axis through the centre
		var a [3]float64
		a[rng.Intn(3)] = (rng.Float64()*3 - 1.5) * s.R
		return Add3(s.C, V3(a[0], a[1], a[2]))
	case 2: // exactly representable boundary point if the centre is
		var a [3]float64
		a[rng.Intn(3)] = s.R * float64(1-2*rng.Intn(2))
		return Add3(s.C, V3(a[0], a[1], a[2]))
	default: // very close to the centre
		return Add3(s.C, Scale3(RandUnit3(rng), s.R*math.Pow(10, -3-9*rng.Float64())))
	}
}
func (s RefSphere) Boundary(rng *rand.Rand) C3 { return Add3(s.C, Scale3(RandUnit3(rng), s.R)) }
func (s RefSphere) Describe() map[string]string {
	return map[string]string{"shape": "sphere", "center": hex3(s.C), "radius": Hex(s.R)}
}

// ---------------------------------------------------------------------------
// axis-aligned box

type RefBox struct{ Min, Max C3 }

func arr3(c C3) [3]float64     { return [3]float64{c.X, c.Y, c.Z} }
func fromArr3(a [3]float64) C3 { return C3{X: a[0], Y: a[1], Z: a[2]} }

var boxFaceName = [6]string{"face-x-", "face-x+", "face-y-", "face-y+", "face-z-", "face-z+"}

func (b RefBox) Eval(p C3) RefEval3 {
	pa, lo, hi := arr3(p), arr3(b.Min), arr3(b.Max)
	var q [3]float64 // signed excess per axis, > 0 outside
	var side [3]int  // 0 = min face, 1 = max face
	nOut := 0
	out2 := 0.0
	for i := 0; i < 3; i++ {
		dlo, dhi := lo[i]-pa[i], pa[i]-hi[i]
		if dlo > dhi {
			q[i], side[i] = dlo, 0
		} else {
			q[i], side[i] = dhi, 1
		}
		if q[i] > 0 {
			nOut++
			out2 += q[i] * q[i]
		}
	}
	face := func(i int) float64 {
		if side[i] == 0 {
			return lo[i]
		}
		return hi[i]
	}
	near := pa
	e := RefEval3{Sing: math.Inf(1)}
	if nOut > 0 {
		k, code := -1, 0
		for i := 0; i < 3; i++ {
			if q[i] > 0 {
				near[i] = face(i)
				k = i
				code = code*7 + 2*i + side[i] + 1
			}
		}
		e.SD = -math.Sqrt(out2)
		if nOut == 1 {
			e.Smooth = true
			e.Piece = 2*k + side[k]
			e.Region = boxFaceName[e.Piece]
			var n [3]float64
			n[k] = float64(2*side[k] - 1)
			e.Normal = fromArr3(n)
		} else {
			e.Piece = 100 + code
			e.Region = "edge"
			if nOut == 3 {
				e.Region = "corner"
			}
		}
	} else {
		k := 0
		for i := 1; i < 3; i++ {
			if q[i] > q[k] {
				k = i
			}
		}
		e.SD = -q[k]
		if e.SD == 0 {
			e.SD = 0 // no negative zero
		}
		near[k] = face(k)
		e.Smooth = true
		e.Piece = 2*k + side[k]
		e.Region = boxFaceName[e.Piece]
		var n [3]float64
		n[k] = float64(2*side[k] - 1)
		e.Normal = fromArr3(n)
	}
	e.Near = fromArr3(near)
	return e
}
func (b RefBox) Size() float64 {
	d := Sub3(b.Max, b.Min)
	return math.Max(d.X, math.Max(d.Y, d.Z))
}
func (b RefBox) Feature() float64 {
	d := Sub3(b.Max, b.Min)
	return math.Min(d.X, math.Min(d.Y, d.Z))
}
func (b RefBox) Bounds() (C3, C3) { return b.Min, b.Max }
func (b RefBox) Special(rng *rand.Rand) C3 {
	lo, hi := arr3(b.Min), arr3(b.Max)
	var a [3]float64
	// each coordinate: min, max, middle, outside-by-extent, or random inside
	for i := 0; i < 3; i++ {
		switch rng.Intn(6) {
		case 0:
			a[i] = lo[i]
		case 1:
			a[i] = hi[i]
		case 2:
			a[i] = lo[i] + (hi[i]-lo[i])/2
		case 3:
			a[i] = lo[i] - (hi[i] - lo[i])
		case 4:
			a[i] = hi[i] + (hi[i]-lo[i])/2
		default:
			a[i] = lo[i] + (hi[i]-lo[i])*rng.Float64()
		}
	}
	return fromArr3(a)
}
func (b RefBox) Boundary(rng *rand.Rand) C3 {
	lo, hi := arr3(b.Min), arr3(b.Max)
	var a [3]float64
	for i := 0; i < 3; i++ {
		a[i] = lo[i] + (hi[i]-lo[i])*rng.Float64()
	}
	k := rng.Intn(3)
	if rng.Intn(2) == 0 {
		a[k] = lo[k]
	} else {
		a[k] = hi[k]
	}
	return fromArr3(a)
}
func (b RefBox) Describe() map[string]string {
	return map[string]string{"shape": "box", "min": hex3(b.Min), "max": hex3(b.Max)}
}

// ---------------------------------------------------------------------------
// capsule

type RefCapsule struct {
	P1, P2 C3
	R      float64
}

func (s RefCapsule) frame() (u C3, l float64) {
	d := Sub3(s.P2, s.P1)
	l = Len3(d)
	return Scale3(d, 1/l), l
}

func (s RefCapsule) Eval(p C3) RefEval3 {
	u, l := s.frame()
	t := Dot3(Sub3(p, s.P1), u)
	e := RefEval3{}
	switch {
	case t <= 0:
		t = 0
		e.Piece, e.Region = 1, "cap1"
	case t >= l:
		t = l
		e.Piece, e.Region = 2, "cap2"
	default:
		e.Piece, e.Region = 0, "side"
	}
	c := Add3(s.P1, Scale3(u, t))
	if e.Piece == 2 {
		c = s.P2
	}
	d := Sub3(p, c)
	r := Len3(d)
	e.SD = s.R - r
	e.Sing = r
	if r > 0 {
		e.Smooth = true
		e.Normal = Scale3(d, 1/r)
		if e.Piece == 0 { // on the side the direction is radial by definition
			_, _, _, e.Normal = radial(d, u)
		}
		e.Near = Add3(c, Scale3(e.Normal, s.R))
	} else {
		e.Piece, e.Region = -1, "core"
		e.Near = Add3(c, Scale3(AnyPerp3(u), s.R))
	}
	return e
}
func (s RefCapsule) Size() float64 { _, l := s.frame(); return l + 2*s.R }
func (s RefCapsule) Feature() float64 {
	_, l := s.frame()
	return math.Min(l, s.R)
}
func (s RefCapsule) Bounds() (C3, C3) {
	r := V3(s.R, s.R, s.R)
	return Sub3(min3(s.P1, s.P2), r), Add3(max3(s.P1, s.P2), r)
}
func (s RefCapsule) Special(rng *rand.Rand) C3 {
	u, l := s.frame()
	switch rng.Intn(6) {
	case 0:
		return s.P1
	case 1:
		return s.P2
	case 2: // on the axis, inside or beyond the caps
		return Add3(s.P1, Scale3(u, (rng.Float64()*2-0.5)*(l+2*s.R)-s.R))
	case 3: // in a plane through an end point (side/cap switch)
		e := s.P1
		if rng.Intn(2) == 0 {
			e = s.P2
		}
		return Add3(e, Scale3(RandPerp3(rng, u), s.R*2*rng.Float64()))
	case 4: // midpoint
		return Lerp3(s.P1, s.P2, 0.5)
	default: // very close to the axis
		return Add3(Lerp3(s.P1, s.P2, rng.Float64()), Scale3(RandPerp3(rng, u), s.R*math.Pow(10, -3-9*rng.Float64())))
	}
}
func (s RefCapsule) Boundary(rng *rand.Rand) C3 {
	u, l := s.frame()
	t := -s.R + rng.Float64()*(l+2*s.R)
	if t >= 0 && t <= l {
		return Add3(Add3(s.P1, Scale3(u, t)), Scale3(RandPerp3(rng, u), s.R))
	}
	v := RandUnit3(rng)
	if t < 0 {
		if Dot3(v, u) > 0 {
			v = Scale3(v, -1)
		}
		return Add3(s.P1, Scale3(v, s.R))
	}
	if Dot3(v, u) < 0 {
		v = Scale3(v, -1)
	}
	return Add3(s.P2, Scale3(v, s.R))
}
func (s RefCapsule) Describe() map[string]string {
	return map[string]string{"shape": "capsule", "p1": hex3(s.P1), "p2": hex3(s.P2), "radius": Hex(s.R)}
}

func min3(a, b C3) C3 {
	return C3{X: math.Min(a.X, b.X), Y: math.Min(a.Y, b.Y), Z: math.Min(a.Z, b.Z)}
}
func max3(a, b C3) C3 {
	return C3{X: math.Max(a.X, b.X), Y: math.Max(a.Y, b.Y), Z: math.Max(a.Z, b.Z)}
}

// ---------------------------------------------------------------------------
// cylinder (flat caps)

type RefCylinder struct {
	P1, P2 C3
	R      float64
}

func (s RefCylinder) frame() (u C3, l float64) {
	d := Sub3(s.P2, s.P1)
	l = Len3(d)
	return Scale3(d, 1/l), l
}

func (s RefCylinder) Eval(p C3) RefEval3 {
	u, l := s.frame()
	h, rho, w, wh := radial(Sub3(p, s.P1), u) // h: height above P1's plane
	z := h - l/2
	a := rho - s.R         // > 0 outside laterally
	b := math.Abs(z) - l/2 // > 0 outside axially
	capH, capSign, capPiece, capName := 0.0, -1.0, 1, "cap1"
	if z > 0 {
		capH, capSign, capPiece, capName = l, 1, 2, "cap2"
	}
	e := RefEval3{Sing: math.Inf(1)}
	switch {
	case a > 0 && b > 0:
		e.SD = -math.Hypot(a, b)
		e.Piece, e.Region = 10+capPiece, "rim"
		e.Near = Add3(Add3(s.P1, Scale3(u, capH)), Scale3(wh, s.R))
	case a > b:
		e.SD = -a
		e.Piece, e.Region = 0, "side"
		e.Sing = rho
		e.Smooth = rho > 0
		e.Normal = wh
		e.Near = Add3(Add3(s.P1, Scale3(u, h)), Scale3(wh, s.R))
	default:
		e.SD = -b
		e.Piece, e.Region = capPiece, capName
		e.Smooth = true
		e.Normal = Scale3(u, capSign)
		e.Near = Add3(Add3(s.P1, Scale3(u, capH)), w)
	}
	if e.SD == 0 {
		e.SD = 0
	}
	return e
}
func (s RefCylinder) Size() float64    { _, l := s.frame(); return math.Max(l, 2*s.R) }
func (s RefCylinder) Feature() float64 { _, l := s.frame(); return math.Min(l, s.R) }
func (s RefCylinder) Bounds() (C3, C3) {
	r := V3(s.R, s.R, s.R)
	return Sub3(min3(s.P1, s.P2), r), Add3(max3(s.P1, s.P2), r)
}
func (s RefCylinder) Special(rng *rand.Rand) C3 {
	u, l := s.frame()
	switch rng.Intn(7) {
	case 0:
		return s.P1
	case 1:
		return s.P2
	case 2: // on the axis
		return Add3(s.P1, Scale3(u, (rng.Float64()*2-0.5)*l))
	case 3: // in a cap plane, inside or outside the disc
		e := s.P1
		if rng.Intn(2) == 0 {
			e = s.P2
		}
		return Add3(e, Scale3(RandPerp3(rng, u), s.R*2*rng.Float64()))
	case 4: // on the rim
		e := s.P1
		if rng.Intn(2) == 0 {
			e = s.P2
		}
		return Add3(e, Scale3(RandPerp3(rng, u), s.R))
	case 5: // on the infinite lateral surface, beyond the caps
		return Add3(Add3(s.P1, Scale3(u, (rng.Float64()*3-1)*l)), Scale3(RandPerp3(rng, u), s.R))
	default: // very close to the axis
		return Add3(Lerp3(s.P1, s.P2, rng.Float64()*1.4-0.2), Scale3(RandPerp3(rng, u), s.R*math.Pow(10, -3-9*rng.Float64())))
	}
}
func (s RefCylinder) Boundary(rng *rand.Rand) C3 {
	u, l := s.frame()
	switch rng.Intn(4) {
	case 0:
		return Add3(s.P1, Scale3(RandPerp3(rng, u), s.R*math.Sqrt(rng.Float64())))
	case 1:
		return Add3(s.P2, Scale3(RandPerp3(rng, u), s.R*math.Sqrt(rng.Float64())))
	default:
		return Add3(Add3(s.P1, Scale3(u, l*rng.Float64())), Scale3(RandPerp3(rng, u), s.R))
	}
}
func (s RefCylinder) Describe() map[string]string {
	return map[string]string{"shape": "cylinder", "p1": hex3(s.P1), "p2": hex3(s.P2), "radius": Hex(s.R)}
}

// ---------------------------------------------------------------------------
// cone

type RefCone struct {
	Tip, Base C3
	R         float64
}

func (s RefCone) frame() (u C3, h float64) {
	d := Sub3(s.Tip, s.Base)
	h = Len3(d)
	return Scale3(d, 1/h), h
}

// Cyl returns the cylindrical coordinates of p in the cone's frame.
func (s RefCone) Cyl(p C3) (rho, z float64) {
	u, _ := s.frame()
	d := Sub3(p, s.Base)
	z = Dot3(d, u)
	return Len3(Sub3(d, Scale3(u, z))), z
}

func (s RefCone) Eval(p C3) RefEval3 {
	u, H := s.frame()
	z, rho, w, wh := radial(Sub3(p, s.Base), u)
	R := s.R
	// Work in the half plane (rho >= 0, z): the boundary is the base radius
	// A=(0,0)-B=(R,0) and the slant B=(R,0)-T=(0,H).
	var dBase float64
	baseRim := rho >= R
	if baseRim {
		dBase = math.Hypot(rho-R, z)
	} else {
		dBase = math.Abs(z)
	}
	l2 := R*R + H*H
	t := ((rho-R)*(-R) + z*H) / l2
	if t < 0 {
		t = 0
	} else if t > 1 {
		t = 1
	}
	qx, qz := R*(1-t), H*t
	dSl := math.Hypot(rho-qx, z-qz)
	inside := z >= 0 && rho <= R*(1-z/H)
	e := RefEval3{Sing: math.Inf(1)}
	var dist float64
	if dBase <= dSl {
		dist = dBase
		if baseRim {
			e.Piece, e.Region = 10, "rim"
			e.Near = Add3(s.Base, Scale3(wh, R))
		} else {
			e.Piece, e.Region = 1, "base"
			e.Smooth = true
			e.Normal = Scale3(u, -1)
			e.Near = Add3(s.Base, w)
		}
	} else {
		dist = dSl
		e.Near = Add3(Add3(s.Base, Scale3(wh, qx)), Scale3(u, qz))
		switch {
		case t == 0:
			e.Piece, e.Region = 10, "rim"
		case t == 1:
			e.Piece, e.Region = 11, "apex"
		default:
			e.Piece, e.Region = 0, "slant"
			e.Sing = rho
			e.Smooth = rho > 0
			e.Normal = Scale3(Add3(Scale3(wh, H), Scale3(u, R)), 1/math.Sqrt(l2))
		}
	}
	if inside {
		e.SD = dist
	} else {
		e.SD = -dist
	}
	if e.SD == 0 {
		e.SD = 0
	}
	return e
}
func (s RefCone) Size() float64    { _, h := s.frame(); return math.Max(h, 2*s.R) }
func (s RefCone) Feature() float64 { _, h := s.frame(); return math.Min(h, s.R) }
func (s RefCone) Bounds() (C3, C3) {
	r := V3(s.R, s.R, s.R)
	return min3(Sub3(s.Base, r), s.Tip), max3(Add3(s.Base, r), s.Tip)
}
func (s RefCone) Special(rng *rand.Rand) C3 {
	u, h := s.frame()
	switch rng.Intn(8) {
	case 0:
		return s.Tip
	case 1:
		return s.Base
	case 2: // on the axis
		return Add3(s.Base, Scale3(u, (rng.Float64()*2-0.5)*h))
	case 3: // in the base plane
		return Add3(s.Base, Scale3(RandPerp3(rng, u), s.R*2*rng.Float64()))
	case 4: // on the rim
		return Add3(s.Base, Scale3(RandPerp3(rng, u), s.R))
	case 5: // beyond the apex, near the axis
		return Add3(Add3(s.Tip, Scale3(u, h*rng.Float64())), Scale3(RandPerp3(rng, u), s.R*rng.Float64()*0.3))
	case 6: // on the slant line continued past rim / apex
		t := rng.Float64()*2 - 0.5
		wv := RandPerp3(rng, u)
		return Add3(Add3(s.Base, Scale3(wv, s.R*(1-t))), Scale3(u, h*t))
	default: // very close to the axis
		return Add3(Lerp3(s.Base, s.Tip, rng.Float64()*1.4-0.2), Scale3(RandPerp3(rng, u), s.R*math.Pow(10, -3-9*rng.Float64())))
	}
}
func (s RefCone) Boundary(rng *rand.Rand) C3 {
	u, h := s.frame()
	if rng.Intn(3) == 0 {
		return Add3(s.Base, Scale3(RandPerp3(rng, u), s.R*math.Sqrt(rng.Float64())))
	}
	t := rng.Float64()
	return Add3(Add3(s.Base, Scale3(RandPerp3(rng, u), s.R*(1-t))), Scale3(u, h*t))
}
func (s RefCone) Describe() map[string]string {
	return map[string]string{"shape": "cone", "tip": hex3(s.Tip), "base": hex3(s.Base), "radius": Hex(s.R)}
}

// ---------------------------------------------------------------------------
// torus

type RefTorus struct {
	C, Axis C3 // Axis need not be unit
	Ro, Ri  float64
}

func (s RefTorus) Eval(p C3) RefEval3 {
	u := Unit3(s.Axis)
	z, rho, _, wh := radial(Sub3(p, s.C), u)
	a := rho - s.Ro
	sdist := math.Hypot(a, z)
	e := RefEval3{SD: s.Ri - sdist, Region: "surface", Sing: math.Min(rho, sdist)}
	if sdist > 0 && rho > 0 {
		e.Smooth = true
		e.Normal = Add3(Scale3(wh, a/sdist), Scale3(u, z/sdist))
		e.Near = Add3(Add3(s.C, Scale3(wh, s.Ro)), Scale3(e.Normal, s.Ri))
	} else if sdist > 0 { // on the axis: a whole circle of nearest points
		e.Piece, e.Region = -1, "axis"
		n := Add3(Scale3(wh, a/sdist), Scale3(u, z/sdist))
		e.Near = Add3(Add3(s.C, Scale3(wh, s.Ro)), Scale3(n, s.Ri))
	} else { // on the ring
		e.Piece, e.Region = -2, "ring"
		e.Near = Add3(Add3(s.C, Scale3(wh, s.Ro)), Scale3(u, s.Ri))
	}
	return e
}
func (s RefTorus) Size() float64    { return 2 * (s.Ro + s.Ri) }
func (s RefTorus) Feature() float64 { return math.Min(s.Ri, s.Ro-s.Ri) }
func (s RefTorus) Bounds() (C3, C3) {
	r := s.Ro + s.Ri
	return Sub3(s.C, V3(r, r, r)), Add3(s.C, V3(r, r, r))
}
func (s RefTorus) Special(rng *rand.Rand) C3 {
	u := Unit3(s.Axis)
	switch rng.Intn(6) {
	case 0:
		return s.C
	case 1: // on the axis
		return Add3(s.C, Scale3(u, (rng.Float64()*2-1)*(s.Ro+s.Ri)))
	case 2: // in the equatorial plane
		return Add3(s.C, Scale3(RandPerp3(rng, u), rng.Float64()*1.5*(s.Ro+s.Ri)))
	case 3: // on the ring circle
		return Add3(s.C, Scale3(RandPerp3(rng, u), s.Ro))
	case 4: // very close to the axis
		return Add3(Add3(s.C, Scale3(u, (rng.Float64()*2-1)*s.Ri)), Scale3(RandPerp3(rng, u), s.Ro*math.Pow(10, -3-9*rng.Float64())))
	default: // very close to the ring
		return Add3(Add3(s.C, Scale3(RandPerp3(rng, u), s.Ro)), Scale3(RandUnit3(rng), s.Ri*math.Pow(10, -3-9*rng.Float64())))
	}
}
func (s RefTorus) Boundary(rng *rand.Rand) C3 {
	u := Unit3(s.Axis)
	wv := RandPerp3(rng, u)
	a := rng.Float64() * 2 * math.Pi
	return Add3(s.C, Add3(Scale3(wv, s.Ro+s.Ri*math.Cos(a)), Scale3(u, s.Ri*math.Sin(a))))
}
func (s RefTorus) Describe() map[string]string {
	return map[string]string{"shape": "torus", "center": hex3(s.C), "axis": hex3(s.Axis), "outer": Hex(s.Ro), "inner": Hex(s.Ri)}
}

// ---------------------------------------------------------------------------
// similarity image of a reference shape: x -> S*Rot*x + T  (S > 0)

// Rot3 is a rotation given by unit axis and angle (Rodrigues), independent of
// the library's matrix code.
type Rot3 struct {
	Axis  C3
	Angle float64
}

func (r Rot3) Apply(v C3) C3 {
	if r.Angle == 0 {
		return v
	}
	c, s := math.Cos(r.Angle), math.Sin(r.Angle)
	k := r.Axis
	return Add3(Add3(Scale3(v, c), Scale3(Cross3(k, v), s)), Scale3(k, Dot3(k, v)*(1-c)))
}
func (r Rot3) Inv() Rot3 { return Rot3{Axis: r.Axis, Angle: -r.Angle} }

// RefSimilar3 is the image of Inner under p -> Scale*Rot(p) + Shift.
type RefSimilar3 struct {
	Inner RefShape3
	Rot   Rot3
	Scale float64
	Shift C3
}

func (s RefSimilar3) fwd(p C3) C3 { return Add3(Scale3(s.Rot.Apply(p), s.Scale), s.Shift) }
func (s RefSimilar3) inv(p C3) C3 { return s.Rot.Inv().Apply(Scale3(Sub3(p, s.Shift), 1/s.Scale)) }
func (s RefSimilar3) Eval(p C3) RefEval3 {
	e := s.Inner.Eval(s.inv(p))
	e.SD *= s.Scale
	e.Sing *= s.Scale
	e.Near = s.fwd(e.Near)
	e.Normal = s.Rot.Apply(e.Normal)
	return e
}
func (s RefSimilar3) Size() float64    { return s.Inner.Size() * s.Scale }
func (s RefSimilar3) Feature() float64 { return s.Inner.Feature() * s.Scale }
func (s RefSimilar3) Bounds() (C3, C3) {
	lo, hi := s.Inner.Bounds()
	first := true
	var mn, mx C3
	for i := 0; i < 8; i++ {
		c := V3(pick(i&1, lo.X, hi.X), pick(i&2, lo.Y, hi.Y), pick(i&4, lo.Z, hi.Z))
		c = s.fwd(c)
		if first {
			mn, mx, first = c, c, false
		} else {
			mn, mx = min3(mn, c), max3(mx, c)
		}
	}
	return mn, mx
}
func pick(bit int, a, b float64) float64 {
	if bit == 0 {
		return a
	}
	return b
}
func (s RefSimilar3) Special(rng *rand.Rand) C3  { return s.fwd(s.Inner.Special(rng)) }
func (s RefSimilar3) Boundary(rng *rand.Rand) C3 { return s.fwd(s.Inner.Boundary(rng)) }
func (s RefSimilar3) Describe() map[string]string {
	m := s.Inner.Describe()
	m["rot_axis"], m["rot_angle"], m["scale"], m["shift"] = hex3(s.Rot.Axis), Hex(s.Rot.Angle), Hex(s.Scale), hex3(s.Shift)
	return m
}

// ---------------------------------------------------------------------------
// generic helpers on reference shapes

var probeDirs3 = func() []C3 {
	var ds []C3
	for _, a := range []C3{{X: 1}, {Y: 1}, {Z: 1}} {
		ds = append(ds, a, Scale3(a, -1))
	}
	k := 1 / math.Sqrt(3)
	for i := 0; i < 8; i++ {
		ds = append(ds, V3(pick(i&1, -k, k), pick(i&2, -k, k), pick(i&4, -k, k)))
	}
	return ds
}()

// StableSmooth3 reports whether, according to the reference, the nearest
// point of p stays on the same smooth boundary piece for every probe at
// distance delta around p, and p is at least delta from the symmetry set.
func StableSmooth3(s RefShape3, p C3, e RefEval3, delta float64) bool {
	if !e.Smooth || !(e.Sing >= delta) {
		return false
	}
	for _, d := range probeDirs3 {
		e2 := s.Eval(Add3(p, Scale3(d, delta)))
		if !e2.Smooth || e2.Piece != e.Piece || !(e2.Sing >= delta/2) {
			return false
		}
	}
	return true
}

// GradRef3 is the central-difference gradient of the reference distance.
func GradRef3(s RefShape3, p C3, h float64) C3 {
	f := func(d C3) float64 { return s.Eval(Add3(p, d)).SD }
	return V3(
		(f(V3(h, 0, 0))-f(V3(-h, 0, 0)))/(2*h),
		(f(V3(0, h, 0))-f(V3(0, -h, 0)))/(2*h),
		(f(V3(0, 0, h))-f(V3(0, 0, -h)))/(2*h),
	)
}
