package c06ref

// C06 brute-force mesh references: exhaustive minimum over all faces with an
// independent point-triangle routine (plane projection + edge functions, no
// matrix inverse), winding-number membership and an independent ray/edge
// clearance used only as a soundness margin.

import "math"

// Regions of ClosestOnTri.
const (
	TriInterior = 0
	TriVertex   = 1 // +index 0..2 -> 1..3
	TriEdge     = 4 // +index of the edge's first vertex (0: ab, 1: bc, 2: ca) -> 4..6
)

// ClosestOnTri returns the point of triangle t nearest to p, its barycentric
// coordinates and the feature region. Formulation: if the orthogonal
// projection of p onto the supporting plane falls inside the triangle (three
// edge functions >= 0) it is the nearest point; otherwise the nearest point is
// on the border and is the best of the three clamped segment projections.
// (Ericson's product formulation was tried first and rejected: it loses ~1e-7
// relative accuracy on needle triangles.)
func ClosestOnTri(p C3, t Tri) (q C3, bary [3]float64, region int) {
	a, b, c := t[0], t[1], t[2]
	n := Cross3(Sub3(b, a), Sub3(c, a))
	n2 := Dot3(n, n)
	if n2 > 0 {
		// edge functions (unnormalised barycentrics of the projection)
		wa := Dot3(Cross3(Sub3(c, b), Sub3(p, b)), n)
		wb := Dot3(Cross3(Sub3(a, c), Sub3(p, c)), n)
		wc := Dot3(Cross3(Sub3(b, a), Sub3(p, a)), n)
		if wa >= 0 && wb >= 0 && wc >= 0 {
			h := Dot3(Sub3(p, a), n) / n2
			q = Sub3(p, Scale3(n, h))
			s := wa + wb + wc
			return q, [3]float64{wa / s, wb / s, wc / s}, TriInterior
		}
	}
	best := math.Inf(1)
	for i := 0; i < 3; i++ {
		u, v := t[i], t[(i+1)%3]
		d := Sub3(v, u)
		l2 := Dot3(d, d)
		tt := 0.0
		if l2 > 0 {
			tt = Dot3(Sub3(p, u), d) / l2
		}
		var cand C3
		var reg int
		var bb [3]float64
		switch {
		case tt <= 0:
			cand, reg = u, TriVertex+i
			bb[i] = 1
		case tt >= 1:
			cand, reg = v, TriVertex+(i+1)%3
			bb[(i+1)%3] = 1
		default:
			cand, reg = Add3(u, Scale3(d, tt)), TriEdge+i
			bb[i], bb[(i+1)%3] = 1-tt, tt
		}
		if dd := Dist3(p, cand); dd < best {
			best, q, bary, region = dd, cand, bb, reg
		}
	}
	return
}

// ClosestOnSeg3 returns the point of segment [a,b] nearest to p.
func ClosestOnSeg3(p, a, b C3) C3 {
	d := Sub3(b, a)
	l2 := Dot3(d, d)
	if l2 == 0 {
		return a
	}
	t := Dot3(Sub3(p, a), d) / l2
	if t <= 0 {
		return a
	}
	if t >= 1 {
		return b
	}
	return Add3(a, Scale3(d, t))
}

// TriQuality is min altitude / longest edge (0 for degenerate triangles).
func TriQuality(t Tri) float64 {
	e := [3]float64{Dist3(t[0], t[1]), Dist3(t[1], t[2]), Dist3(t[2], t[0])}
	l := math.Max(e[0], math.Max(e[1], e[2]))
	if l == 0 {
		return 0
	}
	area2 := Len3(Cross3(Sub3(t[1], t[0]), Sub3(t[2], t[0])))
	return area2 / l / l
}

// TriNormal is the right-hand-rule unit normal.
func TriNormal(t Tri) C3 { return Unit3(Cross3(Sub3(t[1], t[0]), Sub3(t[2], t[0]))) }

// MeshNearest is the result of a brute-force scan.
type MeshNearest struct {
	Dist   float64
	Face   int
	Near   C3
	Region int // region on the nearest face
	Bary   [3]float64
	Second float64 // smallest distance among faces whose nearest point is farther than tieTol from Near (+Inf if none)
}

// BruteNearest3 scans every face.
func BruteNearest3(p C3, tris []Tri, tieTol float64) MeshNearest {
	res := MeshNearest{Dist: math.Inf(1), Face: -1, Second: math.Inf(1)}
	qs := make([]C3, len(tris))
	ds := make([]float64, len(tris))
	for i, t := range tris {
		q, bary, reg := ClosestOnTri(p, t)
		d := Dist3(p, q)
		qs[i], ds[i] = q, d
		if d < res.Dist {
			res.Dist, res.Face, res.Near, res.Region, res.Bary = d, i, q, reg, bary
		}
	}
	for i := range tris {
		if i != res.Face && ds[i] < res.Second && Dist3(qs[i], res.Near) > tieTol {
			res.Second = ds[i]
		}
	}
	return res
}

// Winding3 is the generalised winding number of the faces around p (sum of
// signed solid angles / 4 pi, Van Oosterom & Strackee). minDen reports how
// close p is to the surface relative to the faces (small -> unreliable).
func Winding3(p C3, tris []Tri) float64 {
	sum := 0.0
	for _, t := range tris {
		a, b, c := Sub3(t[0], p), Sub3(t[1], p), Sub3(t[2], p)
		la, lb, lc := Len3(a), Len3(b), Len3(c)
		num := Dot3(a, Cross3(b, c))
		den := la*lb*lc + Dot3(a, b)*lc + Dot3(a, c)*lb + Dot3(b, c)*la
		sum += 2 * math.Atan2(num, den)
	}
	return sum / (4 * math.Pi)
}

// RayClearance casts the ray p + s*dir (s >= 0) against every face with an
// own Moeller-Trumbore and returns the number of hits and the smallest
// clearance seen: the minimum over faces of how far (in barycentric units,
// |n.d| and relative s) the ray is from changing its hit/miss status on that
// face. A small clearance means a parity computed with this ray is fragile.
func RayClearance(p, dir C3, tris []Tri) (hits int, clearance float64) {
	clearance = math.Inf(1)
	d := Unit3(dir)
	for _, t := range tris {
		e1, e2 := Sub3(t[1], t[0]), Sub3(t[2], t[0])
		n := Cross3(e1, e2)
		ln := Len3(n)
		if ln == 0 {
			clearance = 0
			continue
		}
		cosang := Dot3(n, d) / ln
		pv := Cross3(d, e2)
		det := Dot3(e1, pv)
		if math.Abs(cosang) < 1e-6 {
			// nearly parallel: fragile only if the ray comes near the face at all
			scale := math.Sqrt(ln)
			// distance of the face's vertices from the ray line
			near := false
			for _, v := range t {
				w := Sub3(v, p)
				s := Dot3(w, d)
				if s > -scale && Len3(Sub3(w, Scale3(d, s))) < 2*scale {
					near = true
				}
			}
			if near {
				clearance = 0
			}
			continue
		}
		inv := 1 / det
		tv := Sub3(p, t[0])
		u := Dot3(tv, pv) * inv
		qv := Cross3(tv, e1)
		v := Dot3(d, qv) * inv
		s := Dot3(e2, qv) * inv
		scale := math.Sqrt(ln)
		// signed margins: all positive <=> hit
		m := math.Min(math.Min(u, v), 1-u-v)
		ms := s / scale
		if m > 0 && ms > 0 {
			hits++
		}
		c := math.Max(math.Abs(m), 0)
		// status changes when m crosses 0 (with s>0) or s crosses 0 (with m>0)
		var cl float64
		switch {
		case m > 0 && ms > 0:
			cl = math.Min(m, ms)
		case m > 0: // behind the origin
			cl = -ms
		case ms > 0:
			cl = c
		default:
			cl = math.Max(-ms, c)
		}
		if cl < clearance {
			clearance = cl
		}
	}
	return
}

// BruteNearest2 scans every segment.
func BruteNearest2(p C2, segs []Seg, tieTol float64) (dist float64, face int, near C2, t float64, second float64) {
	dist, face, second = math.Inf(1), -1, math.Inf(1)
	qs := make([]C2, len(segs))
	ds := make([]float64, len(segs))
	for i, s := range segs {
		q, tt := ClosestOnSeg(p, s)
		d := Dist2(p, q)
		qs[i], ds[i] = q, d
		if d < dist {
			dist, face, near, t = d, i, q, tt
		}
	}
	for i := range segs {
		if i != face && ds[i] < second && Dist2(qs[i], near) > tieTol {
			second = ds[i]
		}
	}
	return
}
