// Package c06ref holds the independent reference geometry of monitor C06
// (closed-form distances/normals of the primitives, brute-force mesh scans).
// Nothing here calls a method of the library's coordinate or shape types.
package c06ref

import (
	"fmt"

	"verif/vlib"
)

type C3 = vlib.C3
type C2 = vlib.C2
type Tri = vlib.Tri
type Seg = vlib.Seg

// Hex formats a float exactly.
func Hex(f float64) string { return fmt.Sprintf("%x", f) }
