package c06ref

// C06 reference geometry (2D) and extrusions; same conventions as
// c06_refgeom.go. Plain field arithmetic only.

import (
	"math"
	"math/rand"
)

func V2(x, y float64) C2          { return C2{X: x, Y: y} }
func Add2(a, b C2) C2             { return C2{X: a.X + b.X, Y: a.Y + b.Y} }
func Sub2(a, b C2) C2             { return C2{X: a.X - b.X, Y: a.Y - b.Y} }
func Scale2(a C2, s float64) C2   { return C2{X: a.X * s, Y: a.Y * s} }
func Dot2(a, b C2) float64        { return a.X*b.X + a.Y*b.Y }
func CrossZ2(a, b C2) float64     { return a.X*b.Y - a.Y*b.X }
func Len2(a C2) float64           { return math.Sqrt(a.X*a.X + a.Y*a.Y) }
func Dist2(a, b C2) float64       { return Len2(Sub2(a, b)) }
func Lerp2(a, b C2, t float64) C2 { return Add2(Scale2(a, 1-t), Scale2(b, t)) }
func RandUnit2(rng *rand.Rand) C2 {
	a := rng.Float64() * 2 * math.Pi
	return V2(math.Cos(a), math.Sin(a))
}
func MaxAbs2(a C2) float64 { return math.Max(math.Abs(a.X), math.Abs(a.Y)) }
func hex2(c C2) string     { return Hex(c.X) + "," + Hex(c.Y) }

// RefEval2 is the 2D analogue of RefEval3.
type RefEval2 struct {
	SD     float64
	Piece  int
	Smooth bool
	Normal C2
	Near   C2
	Sing   float64
	Region string
}

// RefShape2 is an independent model of a 2D solid.
type RefShape2 interface {
	Eval(p C2) RefEval2
	Size() float64
	Feature() float64
	Bounds() (C2, C2)
	Special(rng *rand.Rand) C2
	Boundary(rng *rand.Rand) C2
	Describe() map[string]string
}

// ---------------------------------------------------------------------------

type RefCircle struct {
	C C2
	R float64
}

func (s RefCircle) Eval(p C2) RefEval2 {
	d := Sub2(p, s.C)
	r := Len2(d)
	e := RefEval2{SD: s.R - r, Sing: r, Region: "arc"}
	if r > 0 {
		e.Smooth = true
		e.Normal = Scale2(d, 1/r)
		e.Near = Add2(s.C, Scale2(d, s.R/r))
	} else {
		e.Piece, e.Region = -1, "centre"
		e.Near = Add2(s.C, V2(0, s.R))
	}
	return e
}
func (s RefCircle) Size() float64    { return 2 * s.R }
func (s RefCircle) Feature() float64 { return s.R }
func (s RefCircle) Bounds() (C2, C2) { return Sub2(s.C, V2(s.R, s.R)), Add2(s.C, V2(s.R, s.R)) }
func (s RefCircle) Special(rng *rand.Rand) C2 {
	switch rng.Intn(4) {
	case 0:
		return s.C
	case 1:
		if rng.Intn(2) == 0 {
			return Add2(s.C, V2((rng.Float64()*3-1.5)*s.R, 0))
		}
		return Add2(s.C, V2(0, (rng.Float64()*3-1.5)*s.R))
	case 2:
		if rng.Intn(2) == 0 {
			return Add2(s.C, V2(s.R*float64(1-2*rng.Intn(2)), 0))
		}
		return Add2(s.C, V2(0, s.R*float64(1-2*rng.Intn(2))))
	default:
		return Add2(s.C, Scale2(RandUnit2(rng), s.R*math.Pow(10, -3-9*rng.Float64())))
	}
}
func (s RefCircle) Boundary(rng *rand.Rand) C2 { return Add2(s.C, Scale2(RandUnit2(rng), s.R)) }
func (s RefCircle) Describe() map[string]string {
	return map[string]string{"shape": "circle", "center": hex2(s.C), "radius": Hex(s.R)}
}

// ---------------------------------------------------------------------------

type RefRect2 struct{ Min, Max C2 }

var rectEdgeName = [4]string{"edge-x-", "edge-x+", "edge-y-", "edge-y+"}

func (b RefRect2) Eval(p C2) RefEval2 {
	pa, lo, hi := [2]float64{p.X, p.Y}, [2]float64{b.Min.X, b.Min.Y}, [2]float64{b.Max.X, b.Max.Y}
	var q [2]float64
	var side [2]int
	nOut, out2 := 0, 0.0
	for i := 0; i < 2; i++ {
		dlo, dhi := lo[i]-pa[i], pa[i]-hi[i]
		if dlo > dhi {
			q[i], side[i] = dlo, 0
		} else {
			q[i], side[i] = dhi, 1
		}
		if q[i] > 0 {
			nOut++
			out2 += q[i] * q[i]
		}
	}
	face := func(i int) float64 {
		if side[i] == 0 {
			return lo[i]
		}
		return hi[i]
	}
	near := pa
	e := RefEval2{Sing: math.Inf(1)}
	k := 0
	if nOut == 2 {
		near[0], near[1] = face(0), face(1)
		e.SD = -math.Sqrt(out2)
		e.Piece, e.Region = 100+2*side[0]+side[1], "corner"
		e.Near = V2(near[0], near[1])
		return e
	}
	if nOut == 1 {
		if q[1] > 0 {
			k = 1
		}
		e.SD = -q[k]
	} else {
		if q[1] > q[0] {
			k = 1
		}
		e.SD = -q[k]
		if e.SD == 0 {
			e.SD = 0
		}
	}
	near[k] = face(k)
	e.Smooth = true
	e.Piece = 2*k + side[k]
	e.Region = rectEdgeName[e.Piece]
	var n [2]float64
	n[k] = float64(2*side[k] - 1)
	e.Normal = V2(n[0], n[1])
	e.Near = V2(near[0], near[1])
	return e
}
func (b RefRect2) Size() float64    { d := Sub2(b.Max, b.Min); return math.Max(d.X, d.Y) }
func (b RefRect2) Feature() float64 { d := Sub2(b.Max, b.Min); return math.Min(d.X, d.Y) }
func (b RefRect2) Bounds() (C2, C2) { return b.Min, b.Max }
func (b RefRect2) Special(rng *rand.Rand) C2 {
	lo, hi := [2]float64{b.Min.X, b.Min.Y}, [2]float64{b.Max.X, b.Max.Y}
	var a [2]float64
	for i := 0; i < 2; i++ {
		switch rng.Intn(6) {
		case 0:
			a[i] = lo[i]
		case 1:
			a[i] = hi[i]
		case 2:
			a[i] = lo[i] + (hi[i]-lo[i])/2
		case 3:
			a[i] = lo[i] - (hi[i] - lo[i])
		case 4:
			a[i] = hi[i] + (hi[i]-lo[i])/2
		default:
			a[i] = lo[i] + (hi[i]-lo[i])*rng.Float64()
		}
	}
	return V2(a[0], a[1])
}
func (b RefRect2) Boundary(rng *rand.Rand) C2 {
	p := V2(b.Min.X+(b.Max.X-b.Min.X)*rng.Float64(), b.Min.Y+(b.Max.Y-b.Min.Y)*rng.Float64())
	switch rng.Intn(4) {
	case 0:
		p.X = b.Min.X
	case 1:
		p.X = b.Max.X
	case 2:
		p.Y = b.Min.Y
	default:
		p.Y = b.Max.Y
	}
	return p
}
func (b RefRect2) Describe() map[string]string {
	return map[string]string{"shape": "rect2", "min": hex2(b.Min), "max": hex2(b.Max)}
}

// ---------------------------------------------------------------------------

type RefCapsule2 struct {
	P1, P2 C2
	R      float64
}

func (s RefCapsule2) frame() (C2, float64) {
	d := Sub2(s.P2, s.P1)
	l := Len2(d)
	return Scale2(d, 1/l), l
}
func (s RefCapsule2) Eval(p C2) RefEval2 {
	u, l := s.frame()
	t := Dot2(Sub2(p, s.P1), u)
	e := RefEval2{}
	c := s.P1
	switch {
	case t <= 0:
		e.Piece, e.Region = 1, "cap1"
	case t >= l:
		c = s.P2
		e.Piece, e.Region = 2, "cap2"
	default:
		c = Add2(s.P1, Scale2(u, t))
		e.Piece, e.Region = 0, "side"
		// the two straight sides are distinct pieces
		if CrossZ2(u, Sub2(p, s.P1)) < 0 {
			e.Piece = 3
		}
	}
	d := Sub2(p, c)
	r := Len2(d)
	e.SD = s.R - r
	e.Sing = r
	if r > 0 {
		e.Smooth = true
		e.Normal = Scale2(d, 1/r)
		if e.Piece == 0 || e.Piece == 3 { // straight sides: the normal is +-perp(u) by definition
			e.Normal = V2(-u.Y, u.X)
			if e.Piece == 3 {
				e.Normal = V2(u.Y, -u.X)
			}
		}
		e.Near = Add2(c, Scale2(e.Normal, s.R))
	} else {
		e.Piece, e.Region = -1, "core"
		e.Near = Add2(c, Scale2(V2(-u.Y, u.X), s.R))
	}
	return e
}
func (s RefCapsule2) Size() float64 { _, l := s.frame(); return l + 2*s.R }
func (s RefCapsule2) Feature() float64 {
	_, l := s.frame()
	return math.Min(l, s.R)
}
func (s RefCapsule2) Bounds() (C2, C2) {
	r := V2(s.R, s.R)
	return Sub2(V2(math.Min(s.P1.X, s.P2.X), math.Min(s.P1.Y, s.P2.Y)), r), Add2(V2(math.Max(s.P1.X, s.P2.X), math.Max(s.P1.Y, s.P2.Y)), r)
}
func (s RefCapsule2) Special(rng *rand.Rand) C2 {
	u, l := s.frame()
	n := V2(-u.Y, u.X)
	switch rng.Intn(6) {
	case 0:
		return s.P1
	case 1:
		return s.P2
	case 2:
		return Add2(s.P1, Scale2(u, (rng.Float64()*2-0.5)*(l+2*s.R)-s.R))
	case 3:
		e := s.P1
		if rng.Intn(2) == 0 {
			e = s.P2
		}
		return Add2(e, Scale2(n, s.R*(rng.Float64()*4-2)))
	case 4:
		return Lerp2(s.P1, s.P2, 0.5)
	default:
		return Add2(Lerp2(s.P1, s.P2, rng.Float64()), Scale2(n, s.R*math.Pow(10, -3-9*rng.Float64())*float64(1-2*rng.Intn(2))))
	}
}
func (s RefCapsule2) Boundary(rng *rand.Rand) C2 {
	u, l := s.frame()
	n := V2(-u.Y, u.X)
	t := -s.R + rng.Float64()*(l+2*s.R)
	if t >= 0 && t <= l {
		return Add2(Add2(s.P1, Scale2(u, t)), Scale2(n, s.R*float64(1-2*rng.Intn(2))))
	}
	v := RandUnit2(rng)
	if t < 0 {
		if Dot2(v, u) > 0 {
			v = Scale2(v, -1)
		}
		return Add2(s.P1, Scale2(v, s.R))
	}
	if Dot2(v, u) < 0 {
		v = Scale2(v, -1)
	}
	return Add2(s.P2, Scale2(v, s.R))
}
func (s RefCapsule2) Describe() map[string]string {
	return map[string]string{"shape": "capsule2", "p1": hex2(s.P1), "p2": hex2(s.P2), "radius": Hex(s.R)}
}

// ---------------------------------------------------------------------------
// polygon(s) given as directed segments: |SD| = exhaustive minimum over the
// segments, sign = even-odd crossing parity. With Outward set, every segment's
// normal is (-dy, dx)/len (the library's convention for a clockwise polygon).

type RefPoly2 struct {
	Segs []Seg
	Name string
}

// ClosestOnSeg returns the nearest point of segment s to p and the clamped
// parameter (0 or 1 at an end point).
func ClosestOnSeg(p C2, s Seg) (C2, float64) {
	d := Sub2(s[1], s[0])
	l2 := Dot2(d, d)
	if l2 == 0 {
		return s[0], 0
	}
	t := Dot2(Sub2(p, s[0]), d) / l2
	if t <= 0 {
		return s[0], 0
	}
	if t >= 1 {
		return s[1], 1
	}
	return Add2(s[0], Scale2(d, t)), t
}

// Parity2 is the even-odd crossing parity of the segments around p
// (half-open rule on y, exact up to the rounding of one intersection
// abscissa; callers only use it at a margin from the boundary).
func Parity2(p C2, segs []Seg) bool {
	in := false
	for _, s := range segs {
		a, b := s[0], s[1]
		if (a.Y > p.Y) != (b.Y > p.Y) {
			x := a.X + (p.Y-a.Y)/(b.Y-a.Y)*(b.X-a.X)
			if p.X < x {
				in = !in
			}
		}
	}
	return in
}

func (s RefPoly2) Eval(p C2) RefEval2 {
	best := math.Inf(1)
	bi := -1
	var bq C2
	var bt float64
	for i, sg := range s.Segs {
		q, t := ClosestOnSeg(p, sg)
		if d := Dist2(p, q); d < best {
			best, bi, bq, bt = d, i, q, t
		}
	}
	e := RefEval2{Sing: math.Inf(1), Near: bq, Piece: bi, Region: "edge"}
	if bt == 0 || bt == 1 {
		e.Piece = 1000 + bi
		e.Region = "vertex"
	} else {
		e.Smooth = true
		d := Sub2(s.Segs[bi][1], s.Segs[bi][0])
		e.Normal = Scale2(V2(-d.Y, d.X), 1/Len2(d))
	}
	if Parity2(p, s.Segs) {
		e.SD = best
	} else {
		e.SD = -best
	}
	return e
}
func (s RefPoly2) Bounds() (C2, C2) {
	mn, mx := s.Segs[0][0], s.Segs[0][0]
	for _, sg := range s.Segs {
		for _, p := range sg {
			mn = V2(math.Min(mn.X, p.X), math.Min(mn.Y, p.Y))
			mx = V2(math.Max(mx.X, p.X), math.Max(mx.Y, p.Y))
		}
	}
	return mn, mx
}
func (s RefPoly2) Size() float64 {
	mn, mx := s.Bounds()
	return math.Max(mx.X-mn.X, mx.Y-mn.Y)
}
func (s RefPoly2) Feature() float64 {
	f := math.Inf(1)
	for _, sg := range s.Segs {
		f = math.Min(f, Dist2(sg[0], sg[1]))
	}
	return f
}
func (s RefPoly2) Special(rng *rand.Rand) C2 {
	sg := s.Segs[rng.Intn(len(s.Segs))]
	switch rng.Intn(5) {
	case 0:
		return sg[0]
	case 1:
		return Lerp2(sg[0], sg[1], 0.5)
	case 2: // on the line of the segment, beyond its end
		return Lerp2(sg[0], sg[1], 1+rng.Float64())
	case 3: // centroid of the vertices
		var c C2
		for _, g := range s.Segs {
			c = Add2(c, g[0])
		}
		return Scale2(c, 1/float64(len(s.Segs)))
	default: // on the bisector at a vertex, both sides
		d := Sub2(sg[1], sg[0])
		return Add2(sg[0], Scale2(V2(-d.Y, d.X), (rng.Float64()*2-1)*0.5))
	}
}
func (s RefPoly2) Boundary(rng *rand.Rand) C2 {
	sg := s.Segs[rng.Intn(len(s.Segs))]
	return Lerp2(sg[0], sg[1], rng.Float64())
}
func (s RefPoly2) Describe() map[string]string {
	m := map[string]string{"shape": "poly2:" + s.Name}
	if len(s.Segs) <= 8 {
		str := ""
		for _, sg := range s.Segs {
			str += "[" + hex2(sg[0]) + " -> " + hex2(sg[1]) + "] "
		}
		m["segments"] = str
	}
	return m
}

// RefTriangle2 builds the clockwise boundary of a triangle so that the
// (-dy,dx) normals point outwards whatever the vertex order was.
func RefTriangle2(a, b, c C2) RefPoly2 {
	if CrossZ2(Sub2(b, a), Sub2(c, a)) > 0 { // counter-clockwise
		b, c = c, b
	}
	return RefPoly2{Segs: []Seg{{a, b}, {b, c}, {c, a}}, Name: "triangle"}
}

// ---------------------------------------------------------------------------
// similarity image in 2D

type RefSimilar2 struct {
	Inner RefShape2
	Angle float64
	Scale float64
	Shift C2
}

func rot2(v C2, a float64) C2 {
	if a == 0 {
		return v
	}
	c, s := math.Cos(a), math.Sin(a)
	return V2(c*v.X-s*v.Y, s*v.X+c*v.Y)
}
func (s RefSimilar2) fwd(p C2) C2 { return Add2(Scale2(rot2(p, s.Angle), s.Scale), s.Shift) }
func (s RefSimilar2) inv(p C2) C2 { return rot2(Scale2(Sub2(p, s.Shift), 1/s.Scale), -s.Angle) }
func (s RefSimilar2) Eval(p C2) RefEval2 {
	e := s.Inner.Eval(s.inv(p))
	e.SD *= s.Scale
	e.Sing *= s.Scale
	e.Near = s.fwd(e.Near)
	e.Normal = rot2(e.Normal, s.Angle)
	return e
}
func (s RefSimilar2) Size() float64    { return s.Inner.Size() * s.Scale }
func (s RefSimilar2) Feature() float64 { return s.Inner.Feature() * s.Scale }
func (s RefSimilar2) Bounds() (C2, C2) {
	lo, hi := s.Inner.Bounds()
	cs := []C2{s.fwd(lo), s.fwd(hi), s.fwd(V2(lo.X, hi.Y)), s.fwd(V2(hi.X, lo.Y))}
	mn, mx := cs[0], cs[0]
	for _, c := range cs[1:] {
		mn = V2(math.Min(mn.X, c.X), math.Min(mn.Y, c.Y))
		mx = V2(math.Max(mx.X, c.X), math.Max(mx.Y, c.Y))
	}
	return mn, mx
}
func (s RefSimilar2) Special(rng *rand.Rand) C2  { return s.fwd(s.Inner.Special(rng)) }
func (s RefSimilar2) Boundary(rng *rand.Rand) C2 { return s.fwd(s.Inner.Boundary(rng)) }
func (s RefSimilar2) Describe() map[string]string {
	m := s.Inner.Describe()
	m["rot_angle"], m["scale"], m["shift"] = Hex(s.Angle), Hex(s.Scale), hex2(s.Shift)
	return m
}

var probeDirs2 = func() []C2 {
	var ds []C2
	for i := 0; i < 8; i++ {
		a := float64(i) * math.Pi / 4
		ds = append(ds, V2(math.Cos(a), math.Sin(a)))
	}
	return ds
}()

// StableSmooth2 is the 2D analogue of StableSmooth3.
func StableSmooth2(s RefShape2, p C2, e RefEval2, delta float64) bool {
	if !e.Smooth || !(e.Sing >= delta) {
		return false
	}
	for _, d := range probeDirs2 {
		e2 := s.Eval(Add2(p, Scale2(d, delta)))
		if !e2.Smooth || e2.Piece != e.Piece || !(e2.Sing >= delta/2) {
			return false
		}
	}
	return true
}

// GradRef2 is the central-difference gradient of the reference distance.
func GradRef2(s RefShape2, p C2, h float64) C2 {
	f := func(d C2) float64 { return s.Eval(Add2(p, d)).SD }
	return V2((f(V2(h, 0))-f(V2(-h, 0)))/(2*h), (f(V2(0, h))-f(V2(0, -h)))/(2*h))
}

// ---------------------------------------------------------------------------
// extrusion of a 2D shape along z (profile): boundary = side walls over the
// 2D boundary plus the two caps.

type RefProfile struct {
	Base       RefShape2
	MinZ, MaxZ float64
}

func (s RefProfile) Eval(p C3) RefEval3 {
	e2 := s.Base.Eval(V2(p.X, p.Y))
	a := -e2.SD // > 0 outside the outline
	zm := (s.MinZ + s.MaxZ) / 2
	hz := (s.MaxZ - s.MinZ) / 2
	b := math.Abs(p.Z-zm) - hz // > 0 outside the slab
	capZ, capSign, capPiece, capName := s.MinZ, -1.0, -11, "cap-"
	if p.Z > zm {
		capZ, capSign, capPiece, capName = s.MaxZ, 1.0, -12, "cap+"
	}
	e := RefEval3{Sing: math.Inf(1)}
	switch {
	case a > 0 && b > 0:
		e.SD = -math.Hypot(a, b)
		e.Piece, e.Region = -20+capPiece, "rim"
		e.Near = V3(e2.Near.X, e2.Near.Y, capZ)
	case a > b:
		e.SD = -a
		e.Piece, e.Region = e2.Piece, "wall:"+e2.Region
		e.Smooth, e.Sing = e2.Smooth, e2.Sing
		e.Normal = V3(e2.Normal.X, e2.Normal.Y, 0)
		e.Near = V3(e2.Near.X, e2.Near.Y, p.Z)
	default:
		e.SD = -b
		e.Piece, e.Region = capPiece, capName
		e.Smooth = true
		e.Normal = V3(0, 0, capSign)
		e.Near = V3(p.X, p.Y, capZ)
	}
	if e.SD == 0 {
		e.SD = 0
	}
	return e
}
func (s RefProfile) Size() float64    { return math.Max(s.Base.Size(), s.MaxZ-s.MinZ) }
func (s RefProfile) Feature() float64 { return math.Min(s.Base.Feature(), s.MaxZ-s.MinZ) }
func (s RefProfile) Bounds() (C3, C3) {
	lo, hi := s.Base.Bounds()
	return V3(lo.X, lo.Y, s.MinZ), V3(hi.X, hi.Y, s.MaxZ)
}
func (s RefProfile) Special(rng *rand.Rand) C3 {
	var q C2
	if rng.Intn(2) == 0 {
		q = s.Base.Special(rng)
	} else {
		q = s.Base.Boundary(rng)
	}
	h := s.MaxZ - s.MinZ
	var z float64
	switch rng.Intn(5) {
	case 0:
		z = s.MinZ
	case 1:
		z = s.MaxZ
	case 2:
		z = s.MinZ + h/2
	case 3:
		z = s.MinZ - h*rng.Float64()
	default:
		z = s.MaxZ + h*rng.Float64()
	}
	return V3(q.X, q.Y, z)
}
func (s RefProfile) Boundary(rng *rand.Rand) C3 {
	if rng.Intn(2) == 0 {
		q := s.Base.Boundary(rng)
		return V3(q.X, q.Y, s.MinZ+(s.MaxZ-s.MinZ)*rng.Float64())
	}
	// a cap point: rejection-sample the interior of the outline
	lo, hi := s.Base.Bounds()
	for i := 0; i < 200; i++ {
		q := V2(lo.X+(hi.X-lo.X)*rng.Float64(), lo.Y+(hi.Y-lo.Y)*rng.Float64())
		if s.Base.Eval(q).SD > 1e-6*s.Base.Size() {
			if rng.Intn(2) == 0 {
				return V3(q.X, q.Y, s.MinZ)
			}
			return V3(q.X, q.Y, s.MaxZ)
		}
	}
	q := s.Base.Boundary(rng)
	return V3(q.X, q.Y, s.MinZ)
}
func (s RefProfile) Describe() map[string]string {
	m := s.Base.Describe()
	m["profile_minz"], m["profile_maxz"] = Hex(s.MinZ), Hex(s.MaxZ)
	return m
}
