package c18ref

import (
	"math"

	"verif/vlib"
)

// Ring returns the neighbours of an interior vertex in the cyclic order induced
// by the face orientation, or ok=false if the faces around it do not form one
// closed cycle.
func Ring(tris []vlib.Tri, center C3) ([]C3, bool) {
	center = normz(center)
	next := map[C3]C3{}
	var start C3
	n := 0
	for _, t := range tris {
		for k := 0; k < 3; k++ {
			if normz(t[k]) == center {
				a, b := normz(t[(k+1)%3]), normz(t[(k+2)%3])
				if _, dup := next[a]; dup {
					return nil, false
				}
				next[a] = b
				start = a
				n++
			}
		}
	}
	if n < 3 {
		return nil, false
	}
	res := []C3{start}
	cur := next[start]
	for cur != start {
		res = append(res, cur)
		nx, ok := next[cur]
		if !ok || len(res) > n {
			return nil, false
		}
		cur = nx
	}
	if len(res) != n {
		return nil, false
	}
	return res, true
}

// ShapePreserving computes Floater's (1997) shape-preserving weights of an
// interior vertex from the definition: the one-ring is flattened keeping the
// edge lengths and the proportions of the angles at the centre; for every
// neighbour l the line from p_l through the centre leaves the ring polygon
// through an edge (p_r, p_r+1); the centre's barycentric coordinates in
// (p_l, p_r, p_r+1) are accumulated and averaged over l.
//
// cond is the smallest |2*area| of the triangles used relative to the squared
// ring scale; small values mean the reference itself is ill-conditioned.
func ShapePreserving(center C3, ring []C3) (w []float64, cond float64) {
	d := len(ring)
	ang := make([]float64, d+1)
	total := 0.0
	maxR := 0.0
	for k := 0; k < d; k++ {
		ang[k] = total
		v1 := ring[k].Sub(center)
		v2 := ring[(k+1)%d].Sub(center)
		// angle between the two spokes, over the full range [0, pi]
		total += math.Atan2(v1.Cross(v2).Norm(), v1.Dot(v2))
		if r := v1.Norm(); r > maxR {
			maxR = r
		}
	}
	scale := 2 * math.Pi / total
	for k := range ang {
		ang[k] *= scale
	}
	ang[d] = 2 * math.Pi
	p := make([]C2, d)
	for k := 0; k < d; k++ {
		r := ring[k].Dist(center)
		p[k] = C2{X: r * math.Cos(ang[k]), Y: r * math.Sin(ang[k])}
	}
	w = make([]float64, d)
	cond = math.Inf(1)
	origin := C2{}
	for l := 0; l < d; l++ {
		phi := ang[l] + math.Pi
		if phi >= 2*math.Pi {
			phi -= 2 * math.Pi
		}
		k := 0
		for k < d-1 && !(ang[k] <= phi && phi < ang[k+1]) {
			k++
		}
		k1 := (k + 1) % d
		t := [3]C2{p[l], p[k], p[k1]}
		det := Orient2DValue(t[0], t[1], t[2])
		if c := math.Abs(det) / (maxR * maxR); c < cond {
			cond = c
		}
		b := Bary2(t, origin)
		for i := range b {
			if b[i] < 0 {
				b[i] = 0
			}
		}
		w[l] += b[0] / float64(d)
		w[k] += b[1] / float64(d)
		w[k1] += b[2] / float64(d)
	}
	return w, cond
}

// RingAngleMargin returns, over all vertices whose faces form one closed
// cycle, the minimum of (half the angle sum at the vertex) - (largest single
// angle between consecutive spokes), in radians. A value <= 0 means that some
// one-ring flattens to a polygon with a straight or reflex angle at the centre
// (a fan folded flat), for which Floater's shape-preserving construction is
// degenerate. Vertices with an open fan (boundary) are ignored.
func RingAngleMargin(tris []vlib.Tri) float64 {
	inc := map[C3][]int{}
	for i, t := range tris {
		for k := 0; k < 3; k++ {
			v := normz(t[k])
			inc[v] = append(inc[v], i)
		}
	}
	best := math.Inf(1)
	for v, fs := range inc {
		next := map[C3]C3{}
		okFan := true
		for _, fi := range fs {
			t := tris[fi]
			for k := 0; k < 3; k++ {
				if normz(t[k]) == v {
					a, b := normz(t[(k+1)%3]), normz(t[(k+2)%3])
					if _, dup := next[a]; dup {
						okFan = false
					}
					next[a] = b
				}
			}
		}
		if !okFan || len(next) < 3 {
			continue
		}
		// closed cycle?
		var start C3
		for a := range next {
			start = a
			break
		}
		cur, n := start, 0
		closed := true
		for {
			nx, ok := next[cur]
			if !ok {
				closed = false
				break
			}
			n++
			cur = nx
			if cur == start || n > len(next) {
				break
			}
		}
		if !closed || n != len(next) {
			continue
		}
		total, worst := 0.0, 0.0
		for a, b := range next {
			v1, v2 := a.Sub(v), b.Sub(v)
			ang := math.Atan2(v1.Cross(v2).Norm(), v1.Dot(v2))
			total += ang
			if ang > worst {
				worst = ang
			}
		}
		if m := 0.5*total - worst; m < best {
			best = m
		}
	}
	return best
}
