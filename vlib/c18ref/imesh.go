// Package c18ref holds the independent reference code of the C18 monitor
// (surface parameterisations): indexed-mesh generators, a disc/manifold
// certifier built on vlib.AnalyzeTris plus an own boundary walk, exact 2D
// predicates, own linear solvers and an own implementation of Floater's
// shape-preserving weights. Nothing in here calls the code under test.
package c18ref

import (
	"math"
	"math/rand"

	"github.com/unixpickle/model3d/model3d"
	"verif/vlib"
)

type C3 = model3d.Coord3D

// IMesh is an indexed triangle mesh. Shared vertices are shared by index, so
// the raw triangles derived from it share bit-identical coordinates.
type IMesh struct {
	V    []C3
	F    [][3]int
	Kind string
}

func (m *IMesh) Clone() *IMesh {
	return &IMesh{V: append([]C3{}, m.V...), F: append([][3]int{}, m.F...), Kind: m.Kind}
}

// Tris returns the raw triangles.
func (m *IMesh) Tris() []vlib.Tri {
	res := make([]vlib.Tri, len(m.F))
	for i, f := range m.F {
		res[i] = vlib.Tri{m.V[f[0]], m.V[f[1]], m.V[f[2]]}
	}
	return res
}

// Mesh builds a library mesh (fresh triangle pointers) and returns the
// pointers in face order.
func (m *IMesh) Mesh() (*model3d.Mesh, []*model3d.Triangle) {
	ptrs := make([]*model3d.Triangle, len(m.F))
	for i, f := range m.F {
		ptrs[i] = &model3d.Triangle{m.V[f[0]], m.V[f[1]], m.V[f[2]]}
	}
	return model3d.NewMeshTriangles(ptrs), ptrs
}

// MeshOfTris builds a library mesh from raw triangles.
func MeshOfTris(tris []vlib.Tri) *model3d.Mesh {
	ptrs := make([]*model3d.Triangle, len(tris))
	for i, t := range tris {
		ptrs[i] = &model3d.Triangle{t[0], t[1], t[2]}
	}
	return model3d.NewMeshTriangles(ptrs)
}

// Append adds another mesh (indices shifted); vertices are not merged.
func (m *IMesh) Append(o *IMesh) {
	off := len(m.V)
	m.V = append(m.V, o.V...)
	for _, f := range o.F {
		m.F = append(m.F, [3]int{f[0] + off, f[1] + off, f[2] + off})
	}
}

// MapV applies f to every vertex.
func (m *IMesh) MapV(f func(C3) C3) {
	for i, v := range m.V {
		m.V[i] = f(v)
	}
}

// Compact drops unused vertices.
func (m *IMesh) Compact() {
	used := make([]int, len(m.V))
	for i := range used {
		used[i] = -1
	}
	var nv []C3
	for fi, f := range m.F {
		for k, v := range f {
			if used[v] < 0 {
				used[v] = len(nv)
				nv = append(nv, m.V[v])
			}
			m.F[fi][k] = used[v]
		}
	}
	m.V = nv
}

// ---------------------------------------------------------------------------
// open discs

// Grid is an nx x ny cell height field patch (a topological disc), counter
// clockwise seen from +z. diag chooses the diagonal of each cell.
func Grid(nx, ny int, height func(i, j int) float64, diag func(i, j int) bool) *IMesh {
	m := &IMesh{Kind: "grid"}
	id := func(i, j int) int { return j*(nx+1) + i }
	for j := 0; j <= ny; j++ {
		for i := 0; i <= nx; i++ {
			m.V = append(m.V, model3d.XYZ(float64(i), float64(j), height(i, j)))
		}
	}
	for j := 0; j < ny; j++ {
		for i := 0; i < nx; i++ {
			a, b, c, d := id(i, j), id(i+1, j), id(i+1, j+1), id(i, j+1)
			if diag(i, j) {
				m.F = append(m.F, [3]int{a, b, c}, [3]int{a, c, d})
			} else {
				m.F = append(m.F, [3]int{a, b, d}, [3]int{b, c, d})
			}
		}
	}
	return m
}

// Fan is one interior vertex surrounded by an n-gon (n >= 3).
func Fan(n int, apex float64, radius func(k int) float64) *IMesh {
	m := &IMesh{Kind: "fan"}
	m.V = append(m.V, model3d.XYZ(0, 0, apex))
	for k := 0; k < n; k++ {
		th := 2 * math.Pi * float64(k) / float64(n)
		r := radius(k)
		m.V = append(m.V, model3d.XYZ(r*math.Cos(th), r*math.Sin(th), 0))
	}
	for k := 0; k < n; k++ {
		m.F = append(m.F, [3]int{0, 1 + k, 1 + (k+1)%n})
	}
	return m
}

// Strip is a triangle strip with no interior vertex (2n triangles).
func Strip(n int, z func(i, j int) float64) *IMesh {
	m := Grid(n, 1, z, func(i, j int) bool { return i%2 == 0 })
	m.Kind = "strip"
	return m
}

// PolygonFan triangulates a convex n-gon from its first vertex: no interior
// vertex, every interior edge is a dividing edge.
func PolygonFan(n int) *IMesh {
	m := &IMesh{Kind: "polyfan"}
	for k := 0; k < n; k++ {
		th := 2 * math.Pi * float64(k) / float64(n)
		m.V = append(m.V, model3d.XYZ(math.Cos(th), math.Sin(th), 0.25*math.Sin(3*th)))
	}
	for k := 1; k+1 < n; k++ {
		m.F = append(m.F, [3]int{0, k, k + 1})
	}
	return m
}

// ---------------------------------------------------------------------------
// closed surfaces

func midpointSubdivide(m *IMesh, project func(C3) C3) *IMesh {
	res := &IMesh{V: append([]C3{}, m.V...), Kind: m.Kind}
	type key [2]int
	mids := map[key]int{}
	mid := func(a, b int) int {
		k := key{a, b}
		if a > b {
			k = key{b, a}
		}
		if i, ok := mids[k]; ok {
			return i
		}
		p := m.V[a].Mid(m.V[b])
		if project != nil {
			p = project(p)
		}
		res.V = append(res.V, p)
		mids[k] = len(res.V) - 1
		return len(res.V) - 1
	}
	for _, f := range m.F {
		ab, bc, ca := mid(f[0], f[1]), mid(f[1], f[2]), mid(f[2], f[0])
		res.F = append(res.F, [3]int{f[0], ab, ca}, [3]int{f[1], bc, ab}, [3]int{f[2], ca, bc}, [3]int{ab, bc, ca})
	}
	return res
}

// Octahedron with outward orientation.
func Octahedron() *IMesh {
	m := &IMesh{Kind: "octa"}
	m.V = []C3{{X: 1}, {X: -1}, {Y: 1}, {Y: -1}, {Z: 1}, {Z: -1}}
	m.F = [][3]int{{0, 2, 4}, {2, 1, 4}, {1, 3, 4}, {3, 0, 4}, {2, 0, 5}, {1, 2, 5}, {3, 1, 5}, {0, 3, 5}}
	return m
}

// Tetrahedron with outward orientation; base z=0 with given base scale and
// apex height h (a small h gives the "flat tetrahedron" whose base carries
// almost half of the area).
func Tetrahedron(base, h float64) *IMesh {
	m := &IMesh{Kind: "tetra"}
	m.V = []C3{
		model3d.XYZ(base, 0, 0),
		model3d.XYZ(-base/2, base*math.Sqrt(3)/2, 0),
		model3d.XYZ(-base/2, -base*math.Sqrt(3)/2, 0),
		model3d.XYZ(0, 0, h),
	}
	m.F = [][3]int{{0, 2, 1}, {0, 1, 3}, {1, 2, 3}, {2, 0, 3}}
	return m
}

// Icosahedron with outward orientation.
func Icosahedron() *IMesh {
	t := (1 + math.Sqrt(5)) / 2
	m := &IMesh{Kind: "icosa"}
	raw := [][3]float64{{-1, t, 0}, {1, t, 0}, {-1, -t, 0}, {1, -t, 0}, {0, -1, t}, {0, 1, t}, {0, -1, -t}, {0, 1, -t}, {t, 0, -1}, {t, 0, 1}, {-t, 0, -1}, {-t, 0, 1}}
	for _, r := range raw {
		m.V = append(m.V, model3d.XYZ(r[0], r[1], r[2]).Normalize())
	}
	m.F = [][3]int{{0, 11, 5}, {0, 5, 1}, {0, 1, 7}, {0, 7, 10}, {0, 10, 11}, {1, 5, 9}, {5, 11, 4}, {11, 10, 2}, {10, 7, 6}, {7, 1, 8}, {3, 9, 4}, {3, 4, 2}, {3, 2, 6}, {3, 6, 8}, {3, 8, 9}, {4, 9, 5}, {2, 4, 11}, {6, 2, 10}, {8, 6, 7}, {9, 8, 1}}
	return m
}

// Sphere subdivides a base polyhedron `levels` times, projecting to the unit
// sphere.
func Sphere(base *IMesh, levels int) *IMesh {
	m := base.Clone()
	m.MapV(func(c C3) C3 { return c.Normalize() })
	for i := 0; i < levels; i++ {
		m = midpointSubdivide(m, func(c C3) C3 { return c.Normalize() })
	}
	m.Kind = base.Kind + "-sphere"
	return m
}

// Bipyramid over an n-gon (n >= 3): 2n faces, genus 0.
func Bipyramid(n int, h1, h2 float64) *IMesh {
	m := &IMesh{Kind: "bipyramid"}
	for k := 0; k < n; k++ {
		th := 2 * math.Pi * float64(k) / float64(n)
		m.V = append(m.V, model3d.XYZ(math.Cos(th), math.Sin(th), 0))
	}
	m.V = append(m.V, model3d.XYZ(0, 0, h1), model3d.XYZ(0, 0, -h2))
	for k := 0; k < n; k++ {
		a, b := k, (k+1)%n
		m.F = append(m.F, [3]int{a, b, n}, [3]int{b, a, n + 1})
	}
	return m
}

// Torus is an nu x nv grid torus (genus 1), outward orientation.
func Torus(nu, nv int, R, r float64, diag func(i, j int) bool) *IMesh {
	m := &IMesh{Kind: "torus"}
	for j := 0; j < nv; j++ {
		for i := 0; i < nu; i++ {
			u := 2 * math.Pi * float64(i) / float64(nu)
			v := 2 * math.Pi * float64(j) / float64(nv)
			m.V = append(m.V, model3d.XYZ((R+r*math.Cos(v))*math.Cos(u), (R+r*math.Cos(v))*math.Sin(u), r*math.Sin(v)))
		}
	}
	id := func(i, j int) int { return (j%nv)*nu + i%nu }
	for j := 0; j < nv; j++ {
		for i := 0; i < nu; i++ {
			a, b, c, d := id(i, j), id(i+1, j), id(i+1, j+1), id(i, j+1)
			if diag(i, j) {
				m.F = append(m.F, [3]int{a, b, c}, [3]int{a, c, d})
			} else {
				m.F = append(m.F, [3]int{a, b, d}, [3]int{b, c, d})
			}
		}
	}
	return m
}

// Voxels builds the boundary surface of a set of unit cubes (integer
// coordinates), outward orientation. The result is a closed manifold only if
// no two cubes touch along just an edge or a vertex: certify before use.
func Voxels(cells map[[3]int]bool, diag func(k int) bool) *IMesh {
	m := &IMesh{Kind: "voxels"}
	vid := map[[3]int]int{}
	v := func(x, y, z int) int {
		k := [3]int{x, y, z}
		if i, ok := vid[k]; ok {
			return i
		}
		m.V = append(m.V, model3d.XYZ(float64(x), float64(y), float64(z)))
		vid[k] = len(m.V) - 1
		return len(m.V) - 1
	}
	// deterministic order
	var keys [][3]int
	for k := range cells {
		keys = append(keys, k)
	}
	sortCells(keys)
	n := 0
	quad := func(a, b, c, d int) {
		if diag(n) {
			m.F = append(m.F, [3]int{a, b, c}, [3]int{a, c, d})
		} else {
			m.F = append(m.F, [3]int{a, b, d}, [3]int{b, c, d})
		}
		n++
	}
	for _, k := range keys {
		x, y, z := k[0], k[1], k[2]
		if !cells[[3]int{x - 1, y, z}] {
			quad(v(x, y, z), v(x, y, z+1), v(x, y+1, z+1), v(x, y+1, z))
		}
		if !cells[[3]int{x + 1, y, z}] {
			quad(v(x+1, y, z), v(x+1, y+1, z), v(x+1, y+1, z+1), v(x+1, y, z+1))
		}
		if !cells[[3]int{x, y - 1, z}] {
			quad(v(x, y, z), v(x+1, y, z), v(x+1, y, z+1), v(x, y, z+1))
		}
		if !cells[[3]int{x, y + 1, z}] {
			quad(v(x, y+1, z), v(x, y+1, z+1), v(x+1, y+1, z+1), v(x+1, y+1, z))
		}
		if !cells[[3]int{x, y, z - 1}] {
			quad(v(x, y, z), v(x, y+1, z), v(x+1, y+1, z), v(x+1, y, z))
		}
		if !cells[[3]int{x, y, z + 1}] {
			quad(v(x, y, z+1), v(x+1, y, z+1), v(x+1, y+1, z+1), v(x, y+1, z+1))
		}
	}
	return m
}

func sortCells(keys [][3]int) {
	less := func(a, b [3]int) bool {
		for k := 0; k < 3; k++ {
			if a[k] != b[k] {
				return a[k] < b[k]
			}
		}
		return false
	}
	// insertion sort is fine for the sizes used here; use a simple quicksort
	var qs func(lo, hi int)
	qs = func(lo, hi int) {
		if hi-lo < 2 {
			return
		}
		p := keys[(lo+hi)/2]
		i, j := lo, hi-1
		for i <= j {
			for less(keys[i], p) {
				i++
			}
			for less(p, keys[j]) {
				j--
			}
			if i <= j {
				keys[i], keys[j] = keys[j], keys[i]
				i++
				j--
			}
		}
		qs(lo, j+1)
		qs(i, hi)
	}
	qs(0, len(keys))
}

// Frame returns the voxel set of a w x h x 1 slab with rectangular holes: a
// surface of genus len(holes) when the holes are disjoint, not touching each
// other or the rim.
func Frame(w, h, d int, holes [][4]int) map[[3]int]bool {
	cells := map[[3]int]bool{}
	for x := 0; x < w; x++ {
		for y := 0; y < h; y++ {
			for z := 0; z < d; z++ {
				cells[[3]int{x, y, z}] = true
			}
		}
	}
	for _, hl := range holes {
		for x := hl[0]; x < hl[2]; x++ {
			for y := hl[1]; y < hl[3]; y++ {
				for z := 0; z < d; z++ {
					delete(cells, [3]int{x, y, z})
				}
			}
		}
	}
	return cells
}

// RandomBlob grows a face-connected voxel blob of n cells.
func RandomBlob(rng *rand.Rand, n int) map[[3]int]bool {
	cells := map[[3]int]bool{{0, 0, 0}: true}
	list := [][3]int{{0, 0, 0}}
	dirs := [][3]int{{1, 0, 0}, {-1, 0, 0}, {0, 1, 0}, {0, -1, 0}, {0, 0, 1}, {0, 0, -1}}
	for tries := 0; len(list) < n && tries < 50*n; tries++ {
		c := list[rng.Intn(len(list))]
		d := dirs[rng.Intn(6)]
		k := [3]int{c[0] + d[0], c[1] + d[1], c[2] + d[2]}
		if !cells[k] {
			cells[k] = true
			list = append(list, k)
		}
	}
	return cells
}

// ---------------------------------------------------------------------------
// edits that preserve the topology

// FlipEdges performs up to n random interior edge flips (each keeps the
// surface type; a flip is skipped if the new edge already exists).
func (m *IMesh) FlipEdges(rng *rand.Rand, n int) int {
	type ek [2]int
	mk := func(a, b int) ek {
		if a > b {
			return ek{b, a}
		}
		return ek{a, b}
	}
	edgeFaces := map[ek][]int{}
	rebuild := func() {
		edgeFaces = map[ek][]int{}
		for fi, f := range m.F {
			for k := 0; k < 3; k++ {
				e := mk(f[k], f[(k+1)%3])
				edgeFaces[e] = append(edgeFaces[e], fi)
			}
		}
	}
	rebuild()
	done := 0
	for t := 0; t < n; t++ {
		fi := rng.Intn(len(m.F))
		k := rng.Intn(3)
		f := m.F[fi]
		a, b := f[k], f[(k+1)%3]
		c := f[(k+2)%3]
		fs := edgeFaces[mk(a, b)]
		if len(fs) != 2 {
			continue
		}
		gi := fs[0]
		if gi == fi {
			gi = fs[1]
		}
		g := m.F[gi]
		d := -1
		for _, v := range g {
			if v != a && v != b {
				d = v
			}
		}
		if d < 0 || d == c {
			continue
		}
		if _, exists := edgeFaces[mk(c, d)]; exists {
			continue
		}
		// f = (a,b,c) ccw, g contains (b,a,d). New: (a,d,c), (d,b,c)
		m.F[fi] = [3]int{a, d, c}
		m.F[gi] = [3]int{d, b, c}
		rebuild()
		done++
	}
	return done
}

// SubsetFaces keeps only the faces selected by keep.
func (m *IMesh) SubsetFaces(keep func(fi int) bool) *IMesh {
	res := &IMesh{V: append([]C3{}, m.V...), Kind: m.Kind + "-subset"}
	for fi, f := range m.F {
		if keep(fi) {
			res.F = append(res.F, f)
		}
	}
	res.Compact()
	return res
}

// Centroid of a face.
func (m *IMesh) Centroid(fi int) C3 {
	f := m.F[fi]
	return m.V[f[0]].Add(m.V[f[1]]).Add(m.V[f[2]]).Scale(1.0 / 3)
}

// LargestEdgeComponent keeps the largest edge-connected component.
func (m *IMesh) LargestEdgeComponent() *IMesh {
	t := vlib.AnalyzeTris(m.Tris())
	count := map[int]int{}
	for _, c := range t.CompOfFace {
		count[c]++
	}
	best, bestN := -1, -1
	for c, n := range count {
		if n > bestN || (n == bestN && c < best) {
			best, bestN = c, n
		}
	}
	return m.SubsetFaces(func(fi int) bool { return t.CompOfFace[fi] == best })
}
