package c18ref

import "math"

// Entry is one off-diagonal coefficient of a convex-combination system.
type Entry struct {
	Col int
	W   float64
}

// System is x_i - sum_j W_ij x_j = B_i over the interior vertices (an
// M-matrix when the weights are non-negative with row sums <= 1 and every
// vertex reaches the boundary).
type System struct {
	N    int
	Rows [][]Entry
}

// Apply computes (I - W) x.
func (s *System) Apply(x []float64) []float64 {
	res := make([]float64, s.N)
	for i, row := range s.Rows {
		v := x[i]
		for _, e := range row {
			v -= e.W * x[e.Col]
		}
		res[i] = v
	}
	return res
}

// SolveDense solves the system for several right-hand sides by Gaussian
// elimination with partial pivoting. ok is false for a singular pivot.
func (s *System) SolveDense(rhs ...[]float64) ([][]float64, bool) {
	n := s.N
	k := len(rhs)
	a := make([][]float64, n)
	for i := range a {
		a[i] = make([]float64, n+k)
		a[i][i] = 1
		for _, e := range s.Rows[i] {
			a[i][e.Col] -= e.W
		}
		for r := 0; r < k; r++ {
			a[i][n+r] = rhs[r][i]
		}
	}
	for c := 0; c < n; c++ {
		p := c
		for r := c + 1; r < n; r++ {
			if math.Abs(a[r][c]) > math.Abs(a[p][c]) {
				p = r
			}
		}
		if a[p][c] == 0 || math.IsNaN(a[p][c]) {
			return nil, false
		}
		a[c], a[p] = a[p], a[c]
		inv := 1 / a[c][c]
		for r := c + 1; r < n; r++ {
			f := a[r][c] * inv
			if f == 0 {
				continue
			}
			rowr, rowc := a[r], a[c]
			for j := c; j < n+k; j++ {
				rowr[j] -= f * rowc[j]
			}
		}
	}
	res := make([][]float64, k)
	for r := 0; r < k; r++ {
		x := make([]float64, n)
		for i := n - 1; i >= 0; i-- {
			v := a[i][n+r]
			for j := i + 1; j < n; j++ {
				v -= a[i][j] * x[j]
			}
			x[i] = v / a[i][i]
		}
		res[r] = x
	}
	return res, true
}

// SolveGS solves by Gauss-Seidel sweeps (converges for these M-matrices)
// until the max-norm residual drops below tol or maxSweeps is reached.
func (s *System) SolveGS(b []float64, tol float64, maxSweeps int) ([]float64, bool) {
	x := make([]float64, s.N)
	for sweep := 0; sweep < maxSweeps; sweep++ {
		for i, row := range s.Rows {
			v := b[i]
			for _, e := range row {
				v += e.W * x[e.Col]
			}
			x[i] = v
		}
		if sweep%8 == 7 {
			if maxAbs(sub(s.Apply(x), b)) < tol {
				return x, true
			}
		}
	}
	return x, maxAbs(sub(s.Apply(x), b)) < tol
}

func sub(a, b []float64) []float64 {
	r := make([]float64, len(a))
	for i := range a {
		r[i] = a[i] - b[i]
	}
	return r
}

func maxAbs(a []float64) float64 {
	m := 0.0
	for _, v := range a {
		if math.IsNaN(v) {
			return math.Inf(1)
		}
		if math.Abs(v) > m {
			m = math.Abs(v)
		}
	}
	return m
}

// MaxAbs is the max-norm.
func MaxAbs(a []float64) float64 { return maxAbs(a) }

// Sub is the element-wise difference.
func Sub(a, b []float64) []float64 { return sub(a, b) }

// Reference solves the system for bx, by with a certified error bound.
//
// For an M-matrix A = I - W the inverse is entrywise non-negative, so
// ||A^-1||_inf = ||A^-1 1||_inf. With an approximate solution u~ of A u = 1 and
// rho = ||1 - A u~||_inf < 1 this gives ||A^-1||_inf <= ||u~||_inf / (1 - rho),
// and every approximate solution x~ of A x = b obeys
// ||x~ - x||_inf <= ||A^-1||_inf * ||b - A x~||_inf. Both bounds only need
// residuals, which are recomputed here, so the solver itself is not trusted.
type Reference struct {
	X, Y    []float64
	InvNorm float64 // certified upper bound of ||A^-1||_inf
	Err     float64 // certified bound of the max-norm error of X and Y
	Method  string
}

// Solve computes the reference; ok is false if no certificate was obtained
// (the caller must then leave the dependent clause undecided).
func (s *System) Solve(bx, by []float64, denseLimit, gsSweeps int) (*Reference, bool) {
	ones := make([]float64, s.N)
	for i := range ones {
		ones[i] = 1
	}
	var x, y, u []float64
	method := "dense-lu"
	if s.N <= denseLimit {
		sol, ok := s.SolveDense(bx, by, ones)
		if !ok {
			return nil, false
		}
		x, y, u = sol[0], sol[1], sol[2]
	} else {
		method = "gauss-seidel"
		var ok1, ok2, ok3 bool
		x, ok1 = s.SolveGS(bx, 1e-13, gsSweeps)
		y, ok2 = s.SolveGS(by, 1e-13, gsSweeps)
		u, ok3 = s.SolveGS(ones, 1e-3, gsSweeps)
		if !ok1 || !ok2 || !ok3 {
			return nil, false
		}
	}
	for _, w := range s.Rows {
		for _, e := range w {
			if e.W < 0 {
				return nil, false // not an M-matrix: the bound does not apply
			}
		}
	}
	rho := maxAbs(sub(s.Apply(u), ones))
	if !(rho < 0.5) {
		return nil, false
	}
	inv := maxAbs(u) / (1 - rho)
	rx := maxAbs(sub(s.Apply(x), bx))
	ry := maxAbs(sub(s.Apply(y), by))
	// allow for the rounding of the residual evaluation itself
	slack := 1e-15 * (1 + maxAbs(x) + maxAbs(y))
	return &Reference{X: x, Y: y, InvNorm: inv, Err: inv * (math.Max(rx, ry) + slack), Method: method}, true
}
