package c18ref

import (
	"fmt"
	"math"

	"verif/vlib"
)

// Cert is the certificate the monitor demands of inputs and checks on outputs.
type Cert struct {
	T *vlib.Topo3
	// EdgeManifold: no degenerate or duplicate face, no edge with > 2 faces, no
	// edge traversed twice in the same direction ("subset of an oriented
	// manifold").
	EdgeManifold bool
	// Manifold: EdgeManifold and every vertex has a single fan.
	Manifold bool
	// Closed: Manifold without boundary edges.
	Closed bool
	// Loops are the boundary loops in the direction induced by the faces
	// (valid only when Manifold).
	Loops [][]C3
	// Disc: Manifold, connected, exactly one boundary loop, Euler
	// characteristic 1.
	Disc    bool
	MinArea float64
	Why     string
}

func normz(c C3) C3 {
	if c.X == 0 {
		c.X = 0
	}
	if c.Y == 0 {
		c.Y = 0
	}
	if c.Z == 0 {
		c.Z = 0
	}
	return c
}

// Certify analyses raw triangles with vlib.AnalyzeTris and an own boundary
// walk.
func Certify(tris []vlib.Tri) *Cert {
	t := vlib.AnalyzeTris(tris)
	c := &Cert{T: t, MinArea: math.Inf(1)}
	for _, tr := range tris {
		a := tr[1].Sub(tr[0]).Cross(tr[2].Sub(tr[0])).Norm() / 2
		if a < c.MinArea {
			c.MinArea = a
		}
	}
	c.EdgeManifold = t.Faces > 0 && t.Degenerate == 0 && t.DuplicateFaces == 0 && t.NonManifoldEdges == 0 && t.InconsistentEdges == 0
	if !c.EdgeManifold {
		c.Why = fmt.Sprintf("not edge-manifold: faces=%d degenerate=%d duplicate=%d nonmanifold-edges=%d inconsistent-edges=%d %v",
			t.Faces, t.Degenerate, t.DuplicateFaces, t.NonManifoldEdges, t.InconsistentEdges, t.Problems)
		return c
	}
	c.Manifold = t.SingularVertices == 0
	if !c.Manifold {
		c.Why = fmt.Sprintf("%d singular (pinched) vertices %v", t.SingularVertices, t.Problems)
		return c
	}
	c.Closed = t.BoundaryEdges == 0
	// own boundary walk: directed edges without a reverse
	type de [2]C3
	dir := map[de]int{}
	for _, tr := range tris {
		for k := 0; k < 3; k++ {
			dir[de{normz(tr[k]), normz(tr[(k+1)%3])}]++
		}
	}
	next := map[C3]C3{}
	nb := 0
	var starts []C3
	for _, tr := range tris { // deterministic order
		for k := 0; k < 3; k++ {
			a, b := normz(tr[k]), normz(tr[(k+1)%3])
			if dir[de{b, a}] == 0 {
				if _, dup := next[a]; dup {
					c.Manifold = false
					c.Why = fmt.Sprintf("boundary vertex %v has two outgoing boundary edges", a)
					return c
				}
				next[a] = b
				starts = append(starts, a)
				nb++
			}
		}
	}
	if nb != t.BoundaryEdges {
		c.Manifold = false
		c.Why = fmt.Sprintf("boundary walk found %d edges, vlib %d", nb, t.BoundaryEdges)
		return c
	}
	seen := map[C3]bool{}
	for _, s := range starts {
		if seen[s] {
			continue
		}
		var loop []C3
		cur := s
		for !seen[cur] {
			seen[cur] = true
			loop = append(loop, cur)
			n, ok := next[cur]
			if !ok {
				c.Manifold = false
				c.Why = fmt.Sprintf("boundary walk stuck at %v", cur)
				return c
			}
			cur = n
		}
		if cur != s {
			c.Manifold = false
			c.Why = fmt.Sprintf("boundary walk from %v re-entered at %v", s, cur)
			return c
		}
		c.Loops = append(c.Loops, loop)
	}
	if len(c.Loops) != t.BoundaryLoops {
		// vlib counts connected components of the boundary graph; for a
		// manifold both must agree.
		c.Manifold = false
		c.Why = fmt.Sprintf("boundary loops: own walk %d, vlib %d", len(c.Loops), t.BoundaryLoops)
		return c
	}
	c.Disc = t.Components == 1 && len(c.Loops) == 1 && t.Euler == 1
	if !c.Disc {
		c.Why = fmt.Sprintf("not a disc: components=%d boundary-loops=%d euler=%d (V=%d E=%d F=%d)",
			t.Components, len(c.Loops), t.Euler, t.Vertices, t.Edges, t.Faces)
	}
	return c
}

// Genus of a closed connected orientable surface from its Euler
// characteristic (only meaningful when Closed and Components == 1).
func (c *Cert) Genus() int { return (2 - c.T.Euler) / 2 }

// Describe summarises a certificate for witnesses.
func (c *Cert) Describe() string {
	t := c.T
	return fmt.Sprintf("F=%d V=%d E=%d chi=%d comps=%d boundaryEdges=%d loops=%d singular=%d nonmanifold=%d inconsistent=%d dup=%d degenerate=%d",
		t.Faces, t.Vertices, t.Edges, t.Euler, t.Components, t.BoundaryEdges, len(c.Loops), t.SingularVertices, t.NonManifoldEdges, t.InconsistentEdges, t.DuplicateFaces, t.Degenerate)
}

// Adjacency lists the distinct neighbours of every vertex (own computation).
func Adjacency(tris []vlib.Tri) map[C3][]C3 {
	res := map[C3][]C3{}
	has := map[[2]C3]bool{}
	for _, tr := range tris {
		for i := 0; i < 3; i++ {
			for j := 0; j < 3; j++ {
				if i == j {
					continue
				}
				a, b := normz(tr[i]), normz(tr[j])
				if !has[[2]C3{a, b}] {
					has[[2]C3{a, b}] = true
					res[a] = append(res[a], b)
				}
			}
		}
	}
	return res
}

// HexTris renders triangles bit-exactly for witnesses (at most max of them).
func HexTris(tris []vlib.Tri, max int) []string {
	var res []string
	for i, t := range tris {
		if i >= max {
			res = append(res, fmt.Sprintf("... %d more", len(tris)-max))
			break
		}
		res = append(res, fmt.Sprintf("(%x,%x,%x) (%x,%x,%x) (%x,%x,%x)", t[0].X, t[0].Y, t[0].Z, t[1].X, t[1].Y, t[1].Z, t[2].X, t[2].Y, t[2].Z))
	}
	return res
}
