package c18ref

import (
	"math"
	"math/big"

	"github.com/unixpickle/model3d/model2d"
)

type C2 = model2d.Coord

// Orient2D is the exact sign of the orientation determinant of (a, b, c):
// +1 counter-clockwise, -1 clockwise, 0 collinear. A floating-point filter
// (Shewchuk's static bound) decides most cases; the rest go through big.Rat.
func Orient2D(a, b, c C2) int {
	detl := (a.X - c.X) * (b.Y - c.Y)
	detr := (a.Y - c.Y) * (b.X - c.X)
	det := detl - detr
	bound := 3.3306690738754716e-16 * (math.Abs(detl) + math.Abs(detr))
	if det > bound {
		return 1
	}
	if -det > bound {
		return -1
	}
	if math.IsNaN(det) || math.IsInf(detl, 0) || math.IsInf(detr, 0) {
		return 0
	}
	r := func(x float64) *big.Rat { return new(big.Rat).SetFloat64(x) }
	ax, ay, bx, by, cx, cy := r(a.X), r(a.Y), r(b.X), r(b.Y), r(c.X), r(c.Y)
	l := new(big.Rat).Mul(new(big.Rat).Sub(ax, cx), new(big.Rat).Sub(by, cy))
	rr := new(big.Rat).Mul(new(big.Rat).Sub(ay, cy), new(big.Rat).Sub(bx, cx))
	return l.Cmp(rr)
}

// Orient2DValue is the floating-point value of twice the signed area.
func Orient2DValue(a, b, c C2) float64 {
	return (b.X-a.X)*(c.Y-a.Y) - (b.Y-a.Y)*(c.X-a.X)
}

// TrisOverlap reports whether two non-degenerate 2D triangles have
// intersecting interiors (exact). Two convex polygons have disjoint interiors
// iff an edge line of one of them separates them weakly.
func TrisOverlap(a, b [3]C2) bool {
	oa, ob := Orient2D(a[0], a[1], a[2]), Orient2D(b[0], b[1], b[2])
	if oa == 0 || ob == 0 {
		return false
	}
	if oa < 0 {
		a[1], a[2] = a[2], a[1]
	}
	if ob < 0 {
		b[1], b[2] = b[2], b[1]
	}
	sep := func(p, q [3]C2) bool {
		for i := 0; i < 3; i++ {
			u, v := p[i], p[(i+1)%3]
			all := true
			for _, w := range q {
				if Orient2D(u, v, w) > 0 {
					all = false
					break
				}
			}
			if all {
				return true
			}
		}
		return false
	}
	return !sep(a, b) && !sep(b, a)
}

// Bary2 computes barycentric coordinates of p in (a, b, c) from signed areas
// (own formula, not the library's inverse matrix).
func Bary2(t [3]C2, p C2) [3]float64 {
	d := Orient2DValue(t[0], t[1], t[2])
	return [3]float64{
		Orient2DValue(p, t[1], t[2]) / d,
		Orient2DValue(t[0], p, t[2]) / d,
		Orient2DValue(t[0], t[1], p) / d,
	}
}

// ClosestOnTri2 returns the point of the (filled) 2D triangle closest to p.
func ClosestOnTri2(t [3]C2, p C2) C2 {
	if o := Orient2D(t[0], t[1], t[2]); o != 0 {
		in := true
		for i := 0; i < 3; i++ {
			if Orient2D(t[i], t[(i+1)%3], p)*o < 0 {
				in = false
				break
			}
		}
		if in {
			return p
		}
	}
	best := t[0]
	bd := math.Inf(1)
	for i := 0; i < 3; i++ {
		a, b := t[i], t[(i+1)%3]
		ab := b.Sub(a)
		l := ab.Dot(ab)
		q := a
		if l > 0 {
			s := p.Sub(a).Dot(ab) / l
			if s < 0 {
				s = 0
			} else if s > 1 {
				s = 1
			}
			q = a.Add(ab.Scale(s))
		}
		if d := q.Dist(p); d < bd {
			bd, best = d, q
		}
	}
	return best
}

// Bary3 computes the barycentric coordinates of the projection of p onto the
// plane of the 3D triangle and the distance of p from that plane point.
func Bary3(t [3]C3, p C3) ([3]float64, float64) {
	e1, e2 := t[1].Sub(t[0]), t[2].Sub(t[0])
	d := p.Sub(t[0])
	a11, a12, a22 := e1.Dot(e1), e1.Dot(e2), e2.Dot(e2)
	b1, b2 := e1.Dot(d), e2.Dot(d)
	det := a11*a22 - a12*a12
	u := (b1*a22 - b2*a12) / det
	v := (a11*b2 - a12*b1) / det
	q := t[0].Add(e1.Scale(u)).Add(e2.Scale(v))
	return [3]float64{1 - u - v, u, v}, q.Dist(p)
}
