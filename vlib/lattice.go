package vlib

import (
	"math"

	"github.com/unixpickle/model3d/model2d"
	"github.com/unixpickle/model3d/model3d"
)

// Lattice-defined solids and exact winding numbers (DESIGN C01/C02).
//
// The marching algorithms only see a solid through Contains on the sampling
// lattice, so a solid defined by a bitmap over lattice points is a complete
// workload. With origin 0 and a dyadic spacing all coordinates are exact.

// BitSolid3 is a solid defined by inside/outside bits on the points
// (i,j,k)*Delta + Origin, 0 <= i < N[0] etc. Between lattice points Contains
// reports the value of the nearest lattice point (ties round half away from
// zero), so along a lattice edge the transition is at the midpoint.
type BitSolid3 struct {
	Origin C3
	Delta  float64
	N      [3]int
	Bits   []bool
	// Calls counts Contains calls (not synchronised; use only sequentially).
	Hook func(C3)
}

func NewBitSolid3(origin C3, delta float64, nx, ny, nz int) *BitSolid3 {
	return &BitSolid3{Origin: origin, Delta: delta, N: [3]int{nx, ny, nz}, Bits: make([]bool, nx*ny*nz)}
}

func (b *BitSolid3) Idx(i, j, k int) int { return (k*b.N[1]+j)*b.N[0] + i }

func (b *BitSolid3) Get(i, j, k int) bool {
	if i < 0 || j < 0 || k < 0 || i >= b.N[0] || j >= b.N[1] || k >= b.N[2] {
		return false
	}
	return b.Bits[b.Idx(i, j, k)]
}

func (b *BitSolid3) Set(i, j, k int, v bool) { b.Bits[b.Idx(i, j, k)] = v }

func (b *BitSolid3) Min() C3 { return b.Origin }
func (b *BitSolid3) Max() C3 {
	return b.Origin.Add(model3d.XYZ(float64(b.N[0]-1), float64(b.N[1]-1), float64(b.N[2]-1)).Scale(b.Delta))
}

func (b *BitSolid3) Contains(p C3) bool {
	if b.Hook != nil {
		b.Hook(p)
	}
	q := p.Sub(b.Origin).Scale(1 / b.Delta)
	return b.Get(int(math.Round(q.X)), int(math.Round(q.Y)), int(math.Round(q.Z)))
}

// BitSolid2 is the 2D analogue.
type BitSolid2 struct {
	Origin C2
	Delta  float64
	N      [2]int
	Bits   []bool
}

func NewBitSolid2(origin C2, delta float64, nx, ny int) *BitSolid2 {
	return &BitSolid2{Origin: origin, Delta: delta, N: [2]int{nx, ny}, Bits: make([]bool, nx*ny)}
}
func (b *BitSolid2) Get(i, j int) bool {
	if i < 0 || j < 0 || i >= b.N[0] || j >= b.N[1] {
		return false
	}
	return b.Bits[j*b.N[0]+i]
}
func (b *BitSolid2) Set(i, j int, v bool) { b.Bits[j*b.N[0]+i] = v }
func (b *BitSolid2) Min() C2              { return b.Origin }
func (b *BitSolid2) Max() C2 {
	return b.Origin.Add(model2d.XY(float64(b.N[0]-1), float64(b.N[1]-1)).Scale(b.Delta))
}
func (b *BitSolid2) Contains(p C2) bool {
	q := p.Sub(b.Origin).Scale(1 / b.Delta)
	return b.Get(int(math.Round(q.X)), int(math.Round(q.Y)))
}

// ---------------------------------------------------------------------------
// exact integer geometry

// I3 is an integer point (coordinates scaled so that they are integral).
type I3 [3]int64

// ToI3 converts c to integers after multiplying by scale; ok is false when the
// scaled coordinate is not an exact integer of moderate size.
func ToI3(c C3, scale float64) (I3, bool) {
	var r I3
	for i, v := range c.Array() {
		s := v * scale
		if s != math.Trunc(s) || math.Abs(s) > 2e5 {
			return r, false
		}
		r[i] = int64(s)
	}
	return r, true
}

func sub3(a, b I3) I3 { return I3{a[0] - b[0], a[1] - b[1], a[2] - b[2]} }
func cross3(a, b I3) I3 {
	return I3{a[1]*b[2] - a[2]*b[1], a[2]*b[0] - a[0]*b[2], a[0]*b[1] - a[1]*b[0]}
}
func dot3(a, b I3) int64 { return a[0]*b[0] + a[1]*b[1] + a[2]*b[2] }
func sgn(x int64) int {
	if x > 0 {
		return 1
	} else if x < 0 {
		return -1
	}
	return 0
}

// generic ray directions: pairwise coprime primes larger than any lattice
// extent used, so a ray from a lattice point meets no other (half-)lattice
// point; edge coincidences are detected exactly and the next direction tried.
var windingDirs3 = []I3{{1009, 917, 811}, {-983, 1013, 877}, {937, -1021, 1031}, {1033, 1039, -1049}}

// Winding3 computes the winding number of the oriented triangle soup around
// p (the signed number of surface crossings of a ray leaving p, +1 for each
// crossing in the direction of the triangle's right-hand normal). All
// arithmetic is exact. ok is false if every direction was degenerate or p lies
// on the surface.
func Winding3(tris [][3]I3, p I3) (w int, ok bool) {
dirs:
	for _, d := range windingDirs3 {
		w = 0
		for _, t := range tris {
			a, b, c := sub3(t[0], p), sub3(t[1], p), sub3(t[2], p)
			n := cross3(sub3(b, a), sub3(c, a))
			dn := dot3(d, n)
			vol := dot3(a, cross3(b, c))
			if n == (I3{}) {
				continue // zero-area triangle contributes nothing
			}
			if dn == 0 {
				if vol == 0 {
					continue dirs // ray lies in the triangle's plane
				}
				continue
			}
			if vol == 0 {
				// p in the plane of the triangle: on the surface or beside it
				s1, s2, s3 := sgn(dot3(n, cross3(a, b))), sgn(dot3(n, cross3(b, c))), sgn(dot3(n, cross3(c, a)))
				if s1 >= 0 && s2 >= 0 && s3 >= 0 {
					return 0, false // p on the triangle
				}
				continue
			}
			if sgn(vol) != sgn(dn) {
				continue // plane is behind the ray
			}
			s1 := sgn(dot3(d, cross3(a, b)))
			s2 := sgn(dot3(d, cross3(b, c)))
			s3 := sgn(dot3(d, cross3(c, a)))
			if s1 == 0 || s2 == 0 || s3 == 0 {
				// the ray's line meets an edge line; decide whether it matters
				if (s1 >= 0 && s2 >= 0 && s3 >= 0) || (s1 <= 0 && s2 <= 0 && s3 <= 0) {
					continue dirs
				}
				continue
			}
			if s1 == s2 && s2 == s3 {
				w += sgn(dn)
			}
		}
		return w, true
	}
	return 0, false
}

// TrisToI3 converts raw triangles to exact integers at the given scale.
func TrisToI3(tris []Tri, scale float64) ([][3]I3, bool) {
	res := make([][3]I3, len(tris))
	for i, t := range tris {
		for k := 0; k < 3; k++ {
			v, ok := ToI3(t[k], scale)
			if !ok {
				return nil, false
			}
			res[i][k] = v
		}
	}
	return res, true
}

// I2 is an integer 2D point.
type I2 [2]int64

func ToI2(c C2, scale float64) (I2, bool) {
	x, y := c.X*scale, c.Y*scale
	if x != math.Trunc(x) || y != math.Trunc(y) || math.Abs(x) > 1e7 || math.Abs(y) > 1e7 {
		return I2{}, false
	}
	return I2{int64(x), int64(y)}, true
}

var windingDirs2 = []I2{{10007, 9103}, {-9973, 10009}, {9967, -10037}}

// Winding2 is the winding number of oriented segments around p, counting +1
// for each crossing of a ray from p in the direction of the segment's normal
// (-dy, dx) — the library's convention for "outward".
func Winding2(segs [][2]I2, p I2) (w int, ok bool) {
dirs:
	for _, d := range windingDirs2 {
		w = 0
		for _, s := range segs {
			a := I2{s[0][0] - p[0], s[0][1] - p[1]}
			b := I2{s[1][0] - p[0], s[1][1] - p[1]}
			e := I2{b[0] - a[0], b[1] - a[1]}
			if e == (I2{}) {
				continue
			}
			n := I2{-e[1], e[0]}
			dn := d[0]*n[0] + d[1]*n[1]
			an := a[0]*n[0] + a[1]*n[1] // signed distance of the line from p (times |e|)
			if dn == 0 {
				if an == 0 {
					continue dirs
				}
				continue
			}
			if an == 0 {
				// p on the line of the segment
				if (a[0]*b[0]+a[1]*b[1]) <= 0 && a[0]*b[1]-a[1]*b[0] == 0 {
					return 0, false
				}
				continue
			}
			if sgn(an) != sgn(dn) {
				continue
			}
			s1 := sgn(d[0]*a[1] - d[1]*a[0])
			s2 := sgn(d[0]*b[1] - d[1]*b[0])
			if s1 == 0 || s2 == 0 {
				continue dirs
			}
			if s1 != s2 {
				w += sgn(dn)
			}
		}
		return w, true
	}
	return 0, false
}

func SegsToI2(segs []Seg, scale float64) ([][2]I2, bool) {
	res := make([][2]I2, len(segs))
	for i, s := range segs {
		for k := 0; k < 2; k++ {
			v, ok := ToI2(s[k], scale)
			if !ok {
				return nil, false
			}
			res[i][k] = v
		}
	}
	return res, true
}
