package vlib

import (
	"fmt"
	"math"
	"sort"

	"github.com/unixpickle/model3d/model2d"
	"github.com/unixpickle/model3d/model3d"
)

// Independent topology oracle on raw face lists (DESIGN 0.4). Vertices are
// identified by Go's == on coordinates (so +0 == -0), exactly as a "plain set
// of faces" would; no library diagnostic is used.

type C3 = model3d.Coord3D
type C2 = model2d.Coord

// Tri is a raw oriented triangle.
type Tri [3]C3

// Seg is a raw oriented segment.
type Seg [2]C2

// Tris extracts raw triangles from a mesh.
func Tris(m *model3d.Mesh) []Tri {
	ts := m.TriangleSlice()
	res := make([]Tri, len(ts))
	for i, t := range ts {
		res[i] = Tri{t[0], t[1], t[2]}
	}
	return res
}

// Segs extracts raw segments from a 2D mesh.
func Segs(m *model2d.Mesh) []Seg {
	ss := m.SegmentSlice()
	res := make([]Seg, len(ss))
	for i, s := range ss {
		res[i] = Seg{s[0], s[1]}
	}
	return res
}

func norm3(c C3) C3 {
	// normalise signed zeros so that map keys agree with ==
	if c.X == 0 {
		c.X = 0
	}
	if c.Y == 0 {
		c.Y = 0
	}
	if c.Z == 0 {
		c.Z = 0
	}
	return c
}

func norm2(c C2) C2 {
	if c.X == 0 {
		c.X = 0
	}
	if c.Y == 0 {
		c.Y = 0
	}
	return c
}

type dsu struct{ p []int }

func newDSU(n int) *dsu {
	d := &dsu{p: make([]int, n)}
	for i := range d.p {
		d.p[i] = i
	}
	return d
}
func (d *dsu) find(x int) int {
	for d.p[x] != x {
		d.p[x] = d.p[d.p[x]]
		x = d.p[x]
	}
	return x
}
func (d *dsu) union(a, b int) { d.p[d.find(a)] = d.find(b) }

// Topo3 is the result of the 3D topology walk.
type Topo3 struct {
	Faces, Vertices, Edges int
	Components             int
	Euler                  int
	Degenerate             int // faces with a repeated vertex
	BadDirected            int // directed edges used != 1 times or whose reverse is not used exactly once
	BoundaryEdges          int // undirected edges with exactly one face
	NonManifoldEdges       int // undirected edges with > 2 faces
	InconsistentEdges      int // undirected edges with 2 faces traversing it the same way
	SingularVertices       int // vertices whose fan is not one cycle (counted only when edge-manifold around it)
	DuplicateFaces         int
	Problems               []string
	VertexIndex            map[C3]int
	CompOfFace             []int
	BoundaryLoops          int
}

// Closed reports closed + edge-manifold + consistently oriented + no pinched vertex.
func (t *Topo3) ClosedOrientedManifold() bool {
	return t.Degenerate == 0 && t.BadDirected == 0 && t.SingularVertices == 0 && t.DuplicateFaces == 0 && t.Faces > 0
}

func (t *Topo3) addProblem(format string, args ...interface{}) {
	if len(t.Problems) < 8 {
		t.Problems = append(t.Problems, fmt.Sprintf(format, args...))
	}
}

// AnalyzeTris walks a raw triangle list.
func AnalyzeTris(tris []Tri) *Topo3 {
	res := &Topo3{Faces: len(tris), VertexIndex: map[C3]int{}}
	vid := func(c C3) int {
		c = norm3(c)
		if i, ok := res.VertexIndex[c]; ok {
			return i
		}
		i := len(res.VertexIndex)
		res.VertexIndex[c] = i
		return i
	}
	type de struct{ a, b int }
	faces := make([][3]int, len(tris))
	directed := map[de][]int{}
	seenFace := map[[3]int]bool{}
	for i, t := range tris {
		f := [3]int{vid(t[0]), vid(t[1]), vid(t[2])}
		faces[i] = f
		if f[0] == f[1] || f[1] == f[2] || f[0] == f[2] {
			res.Degenerate++
			res.addProblem("degenerate face %v", t)
			continue
		}
		// canonical rotation for duplicate detection
		r := f
		for r[0] > r[1] || r[0] > r[2] {
			r = [3]int{r[1], r[2], r[0]}
		}
		if seenFace[r] {
			res.DuplicateFaces++
			res.addProblem("duplicate face %v", t)
		}
		seenFace[r] = true
		for k := 0; k < 3; k++ {
			e := de{f[k], f[(k+1)%3]}
			directed[e] = append(directed[e], i)
		}
	}
	res.Vertices = len(res.VertexIndex)
	verts := make([]C3, res.Vertices)
	for c, i := range res.VertexIndex {
		verts[i] = c
	}
	// undirected edges
	seenU := map[de]bool{}
	faceDSU := newDSU(len(tris))
	for e, fs := range directed {
		rev := directed[de{e.b, e.a}]
		if len(fs) != 1 || len(rev) != 1 {
			res.BadDirected++
			res.addProblem("directed edge %v->%v used %d times, reverse %d times", verts[e.a], verts[e.b], len(fs), len(rev))
		}
		u := e
		if u.a > u.b {
			u = de{e.b, e.a}
		}
		if seenU[u] {
			continue
		}
		seenU[u] = true
		total := len(fs) + len(rev)
		switch {
		case total == 1:
			res.BoundaryEdges++
		case total > 2:
			res.NonManifoldEdges++
		case total == 2 && (len(fs) == 2 || len(rev) == 2):
			res.InconsistentEdges++
		}
		all := append(append([]int{}, fs...), rev...)
		for _, f := range all[1:] {
			faceDSU.union(all[0], f)
		}
	}
	res.Edges = len(seenU)
	res.Euler = res.Vertices - res.Edges + res.Faces - res.Degenerate
	// components
	comp := map[int]int{}
	res.CompOfFace = make([]int, len(tris))
	for i := range tris {
		r := faceDSU.find(i)
		if _, ok := comp[r]; !ok {
			comp[r] = len(comp)
		}
		res.CompOfFace[i] = comp[r]
	}
	res.Components = len(comp)
	// vertex fans: faces incident to v connected through edges at v
	incident := make([][]int, res.Vertices)
	for i, f := range faces {
		if f[0] == f[1] || f[1] == f[2] || f[0] == f[2] {
			continue
		}
		for _, v := range f {
			incident[v] = append(incident[v], i)
		}
	}
	for v, fs := range incident {
		if len(fs) == 0 {
			continue
		}
		local := map[int]int{}
		for j, f := range fs {
			local[f] = j
		}
		d := newDSU(len(fs))
		byOther := map[int][]int{}
		for j, f := range fs {
			for _, w := range faces[f] {
				if w != v {
					byOther[w] = append(byOther[w], j)
				}
			}
		}
		for _, js := range byOther {
			for _, j := range js[1:] {
				d.union(js[0], j)
			}
		}
		roots := map[int]bool{}
		for j := range fs {
			roots[d.find(j)] = true
		}
		if len(roots) != 1 {
			res.SingularVertices++
			res.addProblem("vertex %v has %d disconnected fans", verts[v], len(roots))
		}
	}
	// boundary loops (for disc checks): count cycles in the boundary graph
	if res.BoundaryEdges > 0 {
		next := map[int][]int{}
		for e, fs := range directed {
			rev := directed[de{e.b, e.a}]
			if len(fs) == 1 && len(rev) == 0 {
				next[e.a] = append(next[e.a], e.b)
			}
		}
		bd := newDSU(res.Vertices)
		used := map[int]bool{}
		for a, bs := range next {
			used[a] = true
			for _, b := range bs {
				used[b] = true
				bd.union(a, b)
			}
		}
		roots := map[int]bool{}
		for v := range used {
			roots[bd.find(v)] = true
		}
		res.BoundaryLoops = len(roots)
	}
	return res
}

// SignedVolume is the signed volume enclosed by the triangles (positive for
// outward normals, right-hand rule).
func SignedVolume(tris []Tri) float64 {
	var sum float64
	for _, t := range tris {
		sum += t[0].Dot(t[1].Cross(t[2]))
	}
	return sum / 6
}

// Area3 is the total triangle area.
func Area3(tris []Tri) float64 {
	var sum float64
	for _, t := range tris {
		sum += t[1].Sub(t[0]).Cross(t[2].Sub(t[0])).Norm() / 2
	}
	return sum
}

// Topo2 is the result of the 2D topology walk.
type Topo2 struct {
	Segments, Vertices int
	Components         int
	Degenerate         int
	BadVertices        int // in-degree != 1 or out-degree != 1
	Duplicate          int
	Problems           []string
	CompOfSeg          []int
}

func (t *Topo2) ClosedOrientedManifold() bool {
	return t.Degenerate == 0 && t.BadVertices == 0 && t.Duplicate == 0 && t.Segments > 0
}

// AnalyzeSegs walks a raw segment list.
func AnalyzeSegs(segs []Seg) *Topo2 {
	res := &Topo2{Segments: len(segs)}
	idx := map[C2]int{}
	vid := func(c C2) int {
		c = norm2(c)
		if i, ok := idx[c]; ok {
			return i
		}
		i := len(idx)
		idx[c] = i
		return i
	}
	type de struct{ a, b int }
	seen := map[de]bool{}
	var in, out []int
	grow := func(n int) {
		for len(in) <= n {
			in = append(in, 0)
			out = append(out, 0)
		}
	}
	es := make([]de, len(segs))
	for i, s := range segs {
		a, b := vid(s[0]), vid(s[1])
		grow(a)
		grow(b)
		es[i] = de{a, b}
		if a == b {
			res.Degenerate++
			continue
		}
		if seen[de{a, b}] {
			res.Duplicate++
		}
		seen[de{a, b}] = true
		out[a]++
		in[b]++
	}
	res.Vertices = len(idx)
	verts := make([]C2, len(idx))
	for c, i := range idx {
		verts[i] = c
	}
	for v := range in {
		if in[v] != 1 || out[v] != 1 {
			res.BadVertices++
			if len(res.Problems) < 8 {
				res.Problems = append(res.Problems, fmt.Sprintf("vertex %v has in-degree %d, out-degree %d", verts[v], in[v], out[v]))
			}
		}
	}
	d := newDSU(len(idx))
	for _, e := range es {
		d.union(e.a, e.b)
	}
	comp := map[int]int{}
	res.CompOfSeg = make([]int, len(segs))
	for i, e := range es {
		r := d.find(e.a)
		if _, ok := comp[r]; !ok {
			comp[r] = len(comp)
		}
		res.CompOfSeg[i] = comp[r]
	}
	res.Components = len(comp)
	return res
}

// SignedArea2 is the signed area enclosed by oriented segments via the
// shoelace formula (positive for counter-clockwise loops).
func SignedArea2(segs []Seg) float64 {
	var sum float64
	for _, s := range segs {
		sum += s[0].X*s[1].Y - s[1].X*s[0].Y
	}
	return sum / 2
}

// CanonTris is the canonical form of a face multiset: each triangle rotated to
// start at its lexicographically smallest vertex (orientation kept), sorted;
// floats compared bit-exactly except that -0 is normalised to +0.
func CanonTris(tris []Tri) []Tri {
	res := make([]Tri, len(tris))
	for i, t := range tris {
		t = Tri{norm3(t[0]), norm3(t[1]), norm3(t[2])}
		best := 0
		for k := 1; k < 3; k++ {
			if less3(t[k], t[best]) {
				best = k
			}
		}
		res[i] = Tri{t[best], t[(best+1)%3], t[(best+2)%3]}
	}
	sort.Slice(res, func(i, j int) bool { return lessTri(res[i], res[j]) })
	return res
}

func less3(a, b C3) bool {
	if a.X != b.X {
		return a.X < b.X
	}
	if a.Y != b.Y {
		return a.Y < b.Y
	}
	return a.Z < b.Z
}

func lessTri(a, b Tri) bool {
	for k := 0; k < 3; k++ {
		if a[k] != b[k] {
			return less3(a[k], b[k])
		}
	}
	return false
}

// EqualCanonTris compares two canonical forms and returns the first difference.
func EqualCanonTris(a, b []Tri) (bool, string) {
	if len(a) != len(b) {
		return false, fmt.Sprintf("face counts differ: %d vs %d", len(a), len(b))
	}
	for i := range a {
		if a[i] != b[i] {
			return false, fmt.Sprintf("face %d differs: %v vs %v", i, a[i], b[i])
		}
	}
	return true, ""
}

// CanonSegs is the canonical (sorted) form of a segment multiset.
func CanonSegs(segs []Seg) []Seg {
	res := make([]Seg, len(segs))
	for i, s := range segs {
		res[i] = Seg{norm2(s[0]), norm2(s[1])}
	}
	sort.Slice(res, func(i, j int) bool { return lessSeg(res[i], res[j]) })
	return res
}

func less2(a, b C2) bool {
	if a.X != b.X {
		return a.X < b.X
	}
	return a.Y < b.Y
}

func lessSeg(a, b Seg) bool {
	for k := 0; k < 2; k++ {
		if a[k] != b[k] {
			return less2(a[k], b[k])
		}
	}
	return false
}

// EqualCanonSegs compares two canonical forms.
func EqualCanonSegs(a, b []Seg) (bool, string) {
	if len(a) != len(b) {
		return false, fmt.Sprintf("segment counts differ: %d vs %d", len(a), len(b))
	}
	for i := range a {
		if a[i] != b[i] {
			return false, fmt.Sprintf("segment %d differs: %v vs %v", i, a[i], b[i])
		}
	}
	return true, ""
}

// Hex formats a float bit-exactly for witnesses.
func Hex(f float64) string { return fmt.Sprintf("%x", f) }

// Finite3 reports whether all coordinates are finite.
func Finite3(c C3) bool {
	return !math.IsNaN(c.X+c.Y+c.Z) && !math.IsInf(c.X+c.Y+c.Z, 0)
}
