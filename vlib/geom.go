package vlib

import "math"

// WindingSolidAngle is the winding number of an oriented triangle soup around
// p computed as the sum of signed solid angles (Van Oosterom & Strackee)
// divided by 4*pi. It is reliable for points that are not close to the
// surface; the second result is the distance of the raw value from the nearest
// integer (large values mean the surface is open or p is too close).
func WindingSolidAngle(tris []Tri, p C3) (int, float64) {
	var total float64
	for _, t := range tris {
		a, b, c := t[0].Sub(p), t[1].Sub(p), t[2].Sub(p)
		la, lb, lc := a.Norm(), b.Norm(), c.Norm()
		num := a.Dot(b.Cross(c))
		den := la*lb*lc + a.Dot(b)*lc + b.Dot(c)*la + c.Dot(a)*lb
		total += 2 * math.Atan2(num, den)
	}
	w := total / (4 * math.Pi)
	r := math.Round(w)
	return int(r), math.Abs(w - r)
}

// PointTriDist is the distance from p to triangle t (independent closest
// point computation, Ericson's region method).
func PointTriDist(p C3, t Tri) float64 {
	return p.Dist(ClosestOnTri(p, t))
}

// ClosestOnTri returns the point of t closest to p.
func ClosestOnTri(p C3, t Tri) C3 {
	a, b, c := t[0], t[1], t[2]
	ab, ac, ap := b.Sub(a), c.Sub(a), p.Sub(a)
	d1, d2 := ab.Dot(ap), ac.Dot(ap)
	if d1 <= 0 && d2 <= 0 {
		return a
	}
	bp := p.Sub(b)
	d3, d4 := ab.Dot(bp), ac.Dot(bp)
	if d3 >= 0 && d4 <= d3 {
		return b
	}
	vc := d1*d4 - d3*d2
	if vc <= 0 && d1 >= 0 && d3 <= 0 {
		v := d1 / (d1 - d3)
		return a.Add(ab.Scale(v))
	}
	cp := p.Sub(c)
	d5, d6 := ab.Dot(cp), ac.Dot(cp)
	if d6 >= 0 && d5 <= d6 {
		return c
	}
	vb := d5*d2 - d1*d6
	if vb <= 0 && d2 >= 0 && d6 <= 0 {
		w := d2 / (d2 - d6)
		return a.Add(ac.Scale(w))
	}
	va := d3*d6 - d5*d4
	if va <= 0 && (d4-d3) >= 0 && (d5-d6) >= 0 {
		w := (d4 - d3) / ((d4 - d3) + (d5 - d6))
		return b.Add(c.Sub(b).Scale(w))
	}
	denom := 1 / (va + vb + vc)
	v := vb * denom
	w := vc * denom
	return a.Add(ab.Scale(v)).Add(ac.Scale(w))
}

// MinDistToTris is the brute-force distance from p to a triangle soup.
func MinDistToTris(p C3, tris []Tri) float64 {
	best := math.Inf(1)
	for _, t := range tris {
		if d := PointTriDist(p, t); d < best {
			best = d
		}
	}
	return best
}
