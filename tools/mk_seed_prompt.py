#!/usr/bin/env python3
"""usage: tools/mk_seed_prompt.py <PROP> <DIR> [avoid-text]  -> prints the sub-agent prompt for a seeded change.
The prompt contains only the property record and the scratch worktree path, nothing from /verif's checks."""
import json, sys
prop, d = sys.argv[1], sys.argv[2]
avoid = sys.argv[3] if len(sys.argv) > 3 else ""
rec = None
for l in open('/verif/properties.jsonl'):
    p = json.loads(l)
    if p['id'] == prop:
        rec = p
t = open('/verif/tools/seed_prompt.txt').read()
t = t.replace('{DIR}', d).replace('{PROPERTY}', json.dumps(rec, indent=1))
if avoid:
    t += "\n\nEarlier rounds already produced changes of the following kinds for this property; produce something that works through a DIFFERENT mechanism or a different part of the anchored code:\n" + avoid + "\n"
print(t)
