#!/usr/bin/env python3
"""usage: add_fixed.py <property> <commit-grep> <key> <what>"""
import sys, json, subprocess
prop, grep, key, what = sys.argv[1:5]
commit = subprocess.check_output(['git','-C','/repo','log','--format=%h','-1','--grep',grep]).decode().strip()
assert commit, grep
with open('/verif/known_findings.jsonl','a') as f:
    f.write(json.dumps({"property":prop,"key":key,"status":"fixed","commit":commit,"what":what,"line":"fixed: property=%s %s %s"%(prop,commit,what)})+"\n")
print(prop, commit)
