#!/bin/bash
# usage: eval_seed.sh <PROP e.g. C08> <seed dir e.g. /tmp/seed08/SEED/1> <demo package dir relative to repo, e.g. model3d> [extra check ids...]
# Confirms a seeded change (applies, compiles, demo fails with / passes without, suite green) in a scratch worktree,
# runs the registered quick check(s) against it, and stores it under /verif/seeded/<PROP>-<n>/.
set -u
export GOFLAGS=-mod=mod GOPROXY=off GOSUMDB=off GOTOOLCHAIN=local
PROP=$1; SRC=$2; PKG=$3; shift 3; EXTRA="$@"
N=$(basename $SRC)
ID=$PROP-$N
OUT=/verif/seeded/$ID
W=/var/tmp/ev-$ID
rm -rf $W; git -C /repo worktree prune; git -C /repo worktree add -q $W HEAD || exit 2
mkdir -p $OUT; cp $SRC/patch.diff $OUT/; cp $SRC/meta.json $OUT/agent_meta.json 2>/dev/null
DEMOS=$(ls $SRC/*_test.go $SRC/*.go 2>/dev/null | sort -u)
for d in $DEMOS; do cp $d $OUT/; done
res() { echo "$1" | tee -a $OUT/eval.log; }
: > $OUT/eval.log
res "seed $ID at repo $(git -C /repo rev-parse --short HEAD) on $(date -u +%FT%TZ)"
# demo without the change
for d in $DEMOS; do cp $d $W/$PKG/; done
( cd $W && go test -vet=off -count=1 -run 'Seed|seed|Demo' ./$PKG/ >$OUT/demo_without.log 2>&1 ); DW=$?
res "demo_without_change_exit=$DW (expect 0)"
if ! git -C $W apply $SRC/patch.diff 2>>$OUT/eval.log; then res "PATCH_DOES_NOT_APPLY"; git -C /repo worktree remove --force $W; exit 3; fi
( cd $W && go build ./... && go build -tags verif ./... ) >>$OUT/eval.log 2>&1; res "build_exit=$?"
( cd $W && go test -vet=off -count=1 -run 'Seed|seed|Demo' ./$PKG/ >$OUT/demo_with.log 2>&1 ); DC=$?
res "demo_with_change_exit=$DC (expect non-zero)"
for d in $DEMOS; do rm -f $W/$PKG/$(basename $d); done
( cd $W && go test -vet=off -count=1 -timeout 25m ./... 2>&1 | grep -v "no test files" >$OUT/suite_with_change.log ); 
if grep -q "^FAIL\|^---\s*FAIL\|^panic" $OUT/suite_with_change.log; then res "suite_with_change=FAIL"; else res "suite_with_change=ok"; fi
cd /verif
for C in $PROP $EXTRA; do
  VERIF_REPO=$W bin/vcheck -p $C -tier quick >$OUT/check_$C.log 2>&1; CE=$?
  NV=$(grep -c "^VIOLATION" $OUT/check_$C.log)
  res "check $C quick exit=$CE violations=$NV"
  grep "^VIOLATION" $OUT/check_$C.log | cut -c1-260 | head -5 >> $OUT/eval.log
done
git -C /repo worktree remove --force $W
