#!/bin/sh
# usage: tools/coverage.sh [tier] [Cnn ...]   (from /verif)
#
# Reach report: builds every monitor with Go's integration coverage
# (go build -cover -coverpkg=<library>/...), runs it once at the given tier
# (default quick) with evidence and replays diverted to a scratch directory,
# and writes, per property, which functions of the library the monitor's
# workloads actually executed:
#     coverage/<Cnn>.func.txt     go tool covdata func output (per function %)
#     coverage/SUMMARY.md         per property: functions of its anchored files
#                                 that no statement of was executed
# Coverage counters shared by many threads are slow (cache-line ping-pong), so the
# monitors run with GOMAXPROCS=4 and a tenth of the cases (VERIF_BUDGET_DIV) here; the
# monitor's own package must be in -coverpkg or no counters are written at exit.
# This is a diagnostic for extending workloads ("a monitor decides nothing
# about code the workload never reaches"), not a registered check.
set -u
export GOFLAGS=-mod=mod GOPROXY=off GOSUMDB=off GOTOOLCHAIN=local
tier=${1:-quick}
[ $# -gt 0 ] && shift
props="$*"
[ -z "$props" ] && props="C01 C02 C03 C04 C05 C06 C07 C08 C09 C10 C11 C12 C13 C14 C15 C16 C17 C18 C19 C20"
verif=$(pwd)
# (a trailing /... pattern does not match the packages of a replaced module: name them)
M=github.com/unixpickle/model3d
pkgs=$M/model3d,$M/model2d,$M/render3d,$M/toolbox3d,$M/numerical,$M/fileformats
mkdir -p coverage
scratch=$(mktemp -d /var/tmp/vcov-XXXXXX)
trap 'rm -rf "$scratch"' EXIT
for p in $props; do
  lp=$(echo $p | tr A-Z a-z)
  bin=$scratch/$lp
  go build -tags verif -cover -coverpkg=verif/monitors/$lp,$pkgs -o $bin ./monitors/$lp || { echo "$p build failed"; continue; }
  d=$scratch/cov-$p
  mkdir -p $d $scratch/rep-$p
  div=${COV_DIV:-10}; [ $p = C13 ] && div=1   # C13's cases are whole workloads: all of them
  VERIF_BUDGET_DIV=$div GOMAXPROCS=${COV_PROCS:-4} GOCOVERDIR=$d $bin -tier $tier -seed ${VERIF_SEED:-1} -evidence $scratch/ev-$p.json -replays $scratch/rep-$p \
      -known $verif/known_findings.jsonl -caselog $scratch/cases-$p.log -watchdog-mul 5 > $scratch/out-$p.txt 2>$scratch/err-$p.txt
  echo "$p exit=$? $(grep -c '^VIOLATION' $scratch/out-$p.txt) violation lines"
  go tool covdata func -i=$d 2>/dev/null | grep -v '^verif/' > coverage/$p.func.txt
  go tool covdata textfmt -i=$d -o $scratch/prof-$p.txt 2>/dev/null && grep -v '^verif/' $scratch/prof-$p.txt > coverage/$p.profile.txt
  rm -rf $d $bin
done
[ -n "${COV_NOSUMMARY:-}" ] || { python3 tools/coverage_summary.py $props > coverage/SUMMARY.md; echo "wrote coverage/SUMMARY.md"; }
