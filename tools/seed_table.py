#!/usr/bin/env python3
"""Regenerates the seeded-change table in DESIGN.md (between the SEED-TABLE markers) from seeded/*/meta.json."""
import json, glob, os, re
rows = []
for d in sorted(glob.glob('/verif/seeded/*/')):
    p = os.path.join(d, 'meta.json')
    if not os.path.exists(p):
        continue
    m = json.load(open(p))
    what = (m.get('what_it_breaks') or '').replace('\n', ' ').replace('|', '/')
    what = what[:230] + ('…' if len(what) > 230 else '')
    det = m.get('detected_by') or []
    keys = []
    for c in det:
        ks = m['checks'][c]['keys']
        keys.append('%s (%d keys, e.g. `%s`)' % (c, m['checks'][c]['violations'], ks[0] if ks else ''))
    valid = 'yes' if m.get('valid_seed') else 'NO'
    rows.append('| %s | %s | %s | %s | %s |' % (m['id'], m.get('breaks_property', ''), what, valid, '; '.join(keys) if keys else '**not detected**'))
table = ['| seed | property | change (abridged from the sub-agent\'s description) | confirmed (applies, builds, demo fails with / passes without, suite green) | quick checks that report it |', '|---|---|---|---|---|'] + rows
s = open('/verif/DESIGN.md').read()
b, e = '<!-- SEED-TABLE-BEGIN -->', '<!-- SEED-TABLE-END -->'
if b in s:
    s = s[:s.index(b) + len(b)] + '\n' + '\n'.join(table) + '\n' + s[s.index(e):]
    open('/verif/DESIGN.md', 'w').write(s)
n = len(rows); nd = sum(1 for r in rows if 'not detected' not in r)
print('%d seeds, %d detected' % (n, nd))
for r in rows:
    if 'not detected' in r: print(r[:80])
