#!/usr/bin/env python3
"""Re-confirm seeded changes against /repo's HEAD and run the registered quick checks on them.

usage: tools/reeval_seeds.py [--suite] [--tier quick] [--checks C01,C13] [--jobs N] [seed-id ...]

For every /verif/seeded/<id>/ (patch.diff + demonstration + agent_meta.json) it
  1. makes a scratch worktree of /repo HEAD under /var/tmp (removed afterwards),
  2. runs the demonstration without the change (must pass),
  3. applies patch.diff, builds with and without the verif tag,
  4. runs the demonstration with the change (must fail),
  5. with --suite: runs the whole shipped suite with the change (must pass),
  6. runs the quick check of the seed's property (and of every other property that flagged it before,
     or that is named in --checks) against the worktree via VERIF_REPO,
  7. writes seeded/<id>/meta.json and seeded/<id>/check_<Cnn>.log.
Nothing is ever applied to /repo itself.
"""
import json, os, re, subprocess, sys, glob, shutil, time, concurrent.futures as cf

VERIF = os.getcwd()
ENV = dict(os.environ, GOFLAGS="-mod=mod", GOPROXY="off", GOSUMDB="off", GOTOOLCHAIN="local")
DEMO_RE = "Seed|seed|Demo"


def sh(cmd, cwd=None, env=None, timeout=None, out=None):
    p = subprocess.run(cmd, cwd=cwd, env=env or ENV, shell=isinstance(cmd, str), stdout=subprocess.PIPE,
                       stderr=subprocess.STDOUT, timeout=timeout, text=True, errors="replace")
    if out:
        open(out, "w").write(p.stdout)
    return p.returncode, p.stdout


def infer_pkg(demo):
    m = re.search(r"^package\s+(\w+)", open(demo).read(), re.M)
    name = m.group(1)
    if name.endswith("_test"):
        name = name[:-5]
    if name == "main":
        return None
    return name


def evaluate(sid, opts):
    d = os.path.join(VERIF, "seeded", sid)
    prop = sid.split("-")[0]
    patch = os.path.join(d, "patch.diff")
    demos = sorted(set(glob.glob(os.path.join(d, "*_test.go"))))
    agent = {}
    for name in ("agent_meta.json",):
        p = os.path.join(d, name)
        if os.path.exists(p):
            try:
                agent = json.load(open(p))
            except Exception:
                agent = {"raw": open(p).read()}
    old = {}
    if os.path.exists(os.path.join(d, "meta.json")):
        try:
            old = json.load(open(os.path.join(d, "meta.json")))
        except Exception:
            old = {}
    w = "/var/tmp/rs-" + sid
    sh("git -C /repo worktree remove --force %s" % w)
    shutil.rmtree(w, ignore_errors=True)
    sh("git -C /repo worktree prune")
    rc, o = sh("git -C /repo worktree add -q --detach %s HEAD" % w)
    meta = {"id": sid, "property": prop}
    ran = []
    try:
        if rc != 0:
            meta["error"] = "worktree: " + o
            return meta
        repo_head = sh("git -C /repo rev-parse --short HEAD")[1].strip()
        verif_head = sh("git rev-parse --short HEAD", cwd=VERIF)[1].strip()
        pkgs = sorted(set(filter(None, (infer_pkg(x) for x in demos))))
        pkg = pkgs[0] if pkgs else None
        conf = {"repo_head": repo_head}
        flags = ""
        if os.path.exists(os.path.join(d, "demo_flags")):
            flags = open(os.path.join(d, "demo_flags")).read().strip() + " "
        demo_cmd = "go test %s-vet=off -count=1 -run '%s' ./%s/" % (flags, DEMO_RE, pkg)
        for x in demos:
            shutil.copy(x, os.path.join(w, pkg))
        rc, _ = sh(demo_cmd, cwd=w, timeout=3000, out=os.path.join(d, "demo_without.log"))
        conf["demo_without_change_exit"] = rc
        ran.append("(worktree of /repo HEAD + demo file) " + demo_cmd + " -> exit %d" % rc)
        rc, o = sh("git apply " + patch, cwd=w)
        conf["patch_applies"] = rc == 0
        ran.append("git apply patch.diff -> exit %d" % rc)
        if rc != 0:
            meta["confirmed"] = conf
            meta["error"] = "patch does not apply: " + o
            return meta
        rc, o = sh("go build ./... && go build -tags verif ./...", cwd=w, timeout=3000)
        conf["build_exit"] = rc
        ran.append("go build ./... && go build -tags verif ./... -> exit %d" % rc)
        rc, _ = sh(demo_cmd, cwd=w, timeout=3000, out=os.path.join(d, "demo_with.log"))
        conf["demo_with_change_exit"] = rc
        ran.append("(with change) " + demo_cmd + " -> exit %d" % rc)
        for x in demos:
            os.remove(os.path.join(w, pkg, os.path.basename(x)))
        if opts["suite"]:
            rc, o = sh("go test -vet=off -count=1 -timeout 25m ./... 2>&1 | grep -v 'no test files'", cwd=w,
                       timeout=3000, out=os.path.join(d, "suite_with_change.log"))
            bad = re.search(r"^(FAIL|--- FAIL|panic)", o, re.M) is not None
            if bad:
                # The shipped suite has tests that fail now and then on the unchanged tree as well
                # (e.g. toolbox3d TestHeigthMapInterp, about 1 run in 300): re-run the failing packages.
                pkgs_failed = sorted(set(re.findall(r"^FAIL\s+(github.com/\S+)", o, re.M)))
                failed_tests = sorted(set(re.findall(r"^--- FAIL: (\S+)", o, re.M)))
                still = False
                for pf in pkgs_failed:
                    for _ in range(2):
                        rc2, o2 = sh("go test -vet=off -count=1 -timeout 25m " + pf, cwd=w, timeout=3000)
                        if rc2 != 0:
                            still = True
                conf["suite_first_run_failed_tests"] = failed_tests
                conf["suite_reruns_of_failed_packages"] = "failed again" if still else "passed twice"
                bad = still or not pkgs_failed
            conf["suite_with_change"] = "FAIL" if bad else "ok"
            conf["suite_checked_at_repo"] = repo_head
            ran.append("(with change, demo removed) go test -vet=off -count=1 -timeout 25m ./... -> %s" % conf["suite_with_change"])
        else:
            oc = old.get("confirmed", {})
            if "suite_with_change" in oc:
                conf["suite_with_change"] = oc["suite_with_change"]
                conf["suite_checked_at_repo"] = oc.get("suite_checked_at_repo")
            else:
                # first evaluation by tools/eval_seed.sh
                try:
                    ev = open(os.path.join(d, "eval.log")).read()
                    m = re.search(r"suite_with_change=(\w+)", ev)
                    m2 = re.search(r"at repo (\w+)", ev)
                    if m:
                        conf["suite_with_change"] = m.group(1)
                        conf["suite_checked_at_repo"] = m2.group(1) if m2 else None
                except Exception:
                    pass
        meta["confirmed"] = conf
        # which checks
        checks = [prop]
        for f in glob.glob(os.path.join(d, "check_C*.log")):
            c = os.path.basename(f)[6:-4]
            if c not in checks:
                checks.append(c)
        for c in opts["checks"]:
            if c not in checks:
                checks.append(c)
        if opts["only_own"]:
            checks = [prop] + [c for c in opts["checks"] if c != prop]
        res = {}
        for c in checks:
            log = os.path.join(d, "check_%s.log" % c)
            t0 = time.time()
            rc, o = sh(["bin/vcheck", "-p", c, "-tier", opts["tier"]], cwd=VERIF, env=dict(ENV, VERIF_REPO=w),
                       timeout=7200, out=log)
            keys = []
            for line in o.splitlines():
                if line.startswith("VIOLATION"):
                    m = re.search(r"key=(\S+)", line)
                    keys.append(m.group(1) if m else line[:120])
            res[c] = {"exit": rc, "violations": len(keys), "keys": sorted(set(keys))[:12], "wall_s": round(time.time() - t0, 1)}
            ran.append("VERIF_REPO=<worktree with change> bin/vcheck -p %s -tier %s -> exit %d, %d VIOLATION lines" % (c, opts["tier"], rc, len(keys)))
        meta["checks"] = res
        meta["verif_head"] = verif_head
        meta["detected_by"] = sorted(c for c, r in res.items() if r["exit"] == 1 and r["violations"] > 0)
        meta["detected_by_own_check"] = prop in meta["detected_by"]
    finally:
        sh("git -C /repo worktree remove --force %s" % w)
        shutil.rmtree(w, ignore_errors=True)
        sh("git -C /repo worktree prune")
    for k in ("what_it_breaks", "needs_to_manifest", "files_changed"):
        if k in agent:
            meta[k] = agent[k]
    meta["breaks_property"] = prop
    meta["demo"] = {"files": [os.path.basename(x) for x in demos], "package": pkg, "cmd": demo_cmd}
    c = meta.get("confirmed", {})
    meta["valid_seed"] = bool(c.get("patch_applies") and c.get("build_exit") == 0 and c.get("demo_without_change_exit") == 0
                              and c.get("demo_with_change_exit", 0) != 0 and c.get("suite_with_change") == "ok")
    meta["what_was_run"] = ran
    for k in ("note",):
        if k in old:
            meta[k] = old[k]
    json.dump(meta, open(os.path.join(d, "meta.json"), "w"), indent=1)
    return meta


def main():
    args = sys.argv[1:]
    opts = {"suite": False, "tier": "quick", "checks": [], "only_own": False}
    jobs = 1
    ids = []
    i = 0
    while i < len(args):
        a = args[i]
        if a == "--suite":
            opts["suite"] = True
        elif a == "--only-own":
            opts["only_own"] = True
        elif a == "--tier":
            i += 1
            opts["tier"] = args[i]
        elif a == "--checks":
            i += 1
            opts["checks"] = [c for c in args[i].split(",") if c]
        elif a == "--jobs":
            i += 1
            jobs = int(args[i])
        else:
            ids.append(a)
        i += 1
    if not ids:
        ids = sorted(os.path.basename(p.rstrip("/")) for p in glob.glob(os.path.join(VERIF, "seeded", "*/")))
    sh("mkdir -p bin && go build -o bin/vcheck ./cmd/vcheck", cwd=VERIF)
    with cf.ThreadPoolExecutor(max_workers=jobs) as ex:
        for meta in ex.map(lambda s: evaluate(s, opts), ids):
            c = meta.get("confirmed", {})
            print("%-8s valid=%s demo(w/o,with)=(%s,%s) suite=%s detected_by=%s %s" % (
                meta["id"], meta.get("valid_seed"), c.get("demo_without_change_exit"), c.get("demo_with_change_exit"),
                c.get("suite_with_change"), meta.get("detected_by"), meta.get("error", "")), flush=True)


if __name__ == "__main__":
    main()
