#!/bin/bash
# usage: tools/import_seed.sh <src dir with patch.diff, demo *_test.go, meta.json> <id e.g. C12-4>
# copies a sub-agent's seeded change into /verif/seeded/<id>/ ; confirm it afterwards with tools/reeval_seeds.py --suite <id>
set -e
SRC=$1; ID=$2; OUT=/verif/seeded/$ID
mkdir -p $OUT
cp $SRC/patch.diff $OUT/
cp $SRC/meta.json $OUT/agent_meta.json
for f in $SRC/*_test.go; do cp $f $OUT/; done
grep -h "^func Test" $OUT/*_test.go
