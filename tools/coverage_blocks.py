#!/usr/bin/env python3
"""usage: tools/coverage_blocks.py  -> coverage/UNCOVERED.md
Merges coverage/<Cnn>.profile.txt (go cover text profiles written by tools/coverage.sh) and lists, per
anchored file, the source blocks that no monitor executed (with the source line), skipping blocks that
only panic or return an error constant."""
import glob, json, re, collections, os
PREFIX='github.com/unixpickle/model3d/'
anch=set()
for l in open('/verif/properties.jsonl'):
    p=json.loads(l)
    for f in p['anchors']['files']:
        if not f.endswith('_test.go'): anch.add(f)
cov=collections.defaultdict(int)
for fn in glob.glob('coverage/C*.profile.txt'):
    for line in open(fn):
        m=re.match(r'(\S+):(\d+)\.(\d+),(\d+)\.(\d+) (\d+) (\d+)', line)
        if not m or not m.group(1).startswith(PREFIX): continue
        key=(m.group(1)[len(PREFIX):], int(m.group(2)), int(m.group(4)))
        cov[key]=max(cov[key], int(m.group(7)))
out=[]
byfile=collections.defaultdict(list)
for (f,a,b),c in cov.items():
    if c==0 and f in anch: byfile[f].append((a,b))
total=0
for f in sorted(byfile):
    src=open('/repo/'+f).read().split('\n')
    rows=[]
    for a,b in sorted(byfile[f]):
        text=' '.join(x.strip() for x in src[a-1:min(b,a+2)])
        if re.search(r'panic\(|errors\.New|fmt\.Errorf|return nil, err|return err', text): continue
        rows.append('- %s:%d-%d  `%s`'%(f,a,b,text[:140]))
    if rows:
        out.append('## %s (%d blocks)\n'%(f,len(rows))); out+=rows; out.append(''); total+=len(rows)
open('coverage/UNCOVERED.md','w').write('# Blocks of anchored files no monitor executed: %d\n\n'%total+'\n'.join(out))
print(total)
