#!/bin/bash
# usage: tools/sweep.sh <tier> <seed...>   — runs every check at the given seeds, prints one line per run
# (used through `vp run` from a snapshot; evidence written there is not the committed evidence)
# VERIF_PROPS="C02 C06" restricts the sweep to some properties
export GOFLAGS=-mod=mod GOPROXY=off GOSUMDB=off GOTOOLCHAIN=local
TIER=$1; shift
mkdir -p bin evidence replays && go build -o bin/vcheck ./cmd/vcheck || exit 2
for s in "$@"; do
  for p in ${VERIF_PROPS:-C01 C02 C03 C04 C05 C06 C07 C08 C09 C10 C11 C12 C13 C14 C15 C16 C17 C18 C19 C20}; do
    t0=$(date +%s)
    VERIF_SEED=$s bin/vcheck -p $p -tier $TIER > sweep_${p}_${s}.log 2>&1; rc=$?
    t1=$(date +%s)
    echo "seed=$s $p exit=$rc wall=$((t1-t0))s $(grep -E '^(VIOLATION|INCONCLUSIVE|KNOWN-FINDING)' sweep_${p}_${s}.log | cut -c1-200 | head -3 | tr '\n' ';')"
  done
done
