#!/usr/bin/env python3
"""Regenerates /verif/MANIFEST.json from the table in tools/checks.json."""
import json, os, subprocess
here = os.path.dirname(os.path.abspath(__file__))
root = os.path.dirname(here)
table = json.load(open(os.path.join(here, "checks.json")))
props = [json.loads(l) for l in open(os.path.join(root, "properties.jsonl"))]
ids = [p["id"] for p in props]
hooks = subprocess.run(["git", "-C", "/repo", "log", "--format=%H", "--grep", "^verif hooks"], capture_output=True, text=True).stdout.split()
checks, na = [], []
for pid in ids:
    t = table.get(pid)
    if not t or not t.get("claimed"):
        na.append({"property_id": pid, "reason": (t or {}).get("reason", "monitor not built yet in this round; not claimed")})
        continue
    checks.append({
        "property_id": pid,
        "quick_cmd": "bin/vcheck -p %s -tier quick" % pid,
        "thorough_cmd": "bin/vcheck -p %s -tier thorough" % pid,
        "evidence_file": "evidence/%s.json" % pid,
        "replay_cmd_template": "bin/vcheck -p %s -replay {path}" % pid,
        "engine": "vcheck",
        "level_claimed": {"category": t.get("level", "exploration"), "text": t["text"], "design_ref": "DESIGN.md section " + pid},
        "level_note": t["note"],
        "technique": t["technique"],
    })
m = {
    "version": 1,
    "setup_cmd": "mkdir -p bin evidence replays && GOFLAGS=-mod=mod GOPROXY=off GOSUMDB=off GOTOOLCHAIN=local go build -o bin/vcheck ./cmd/vcheck",
    "hooks": {
        "guard": "verif (Go build tag)",
        "enable": "every check builds its monitor with `go build -tags verif` against `replace github.com/unixpickle/model3d => /repo`",
        "baseline_off_cmd": "cd /repo && GOFLAGS=-mod=mod GOPROXY=off GOSUMDB=off go test -vet=off -count=1 -timeout 25m ./...",
        "source_commits": list(reversed(hooks)),
        "add_only": True,
    },
    "engines": [{
        "name": "vcheck", "path": "cmd/vcheck",
        "serves_properties": [c["property_id"] for c in checks],
        "kind_free_text": "driver: rebuilds monitors/<id> from /repo's working tree with -tags verif (and -race for C12/C13), runs the monitor (seeded workloads + independent oracles from vlib), maps crashes/race reports/watchdog firings to verdict lines, honours known_findings.jsonl",
    }],
    "checks": checks,
    "notes": "Technique family: runtime monitoring. Exit 0 = held on everything explored; exit 1 + VIOLATION line; exit 2 + INCONCLUSIVE line when a claimed clause observed too little (never on a healthy tree). VERIF_SEED seeds every random choice.",
    "not_applicable": na,
}
json.dump(m, open(os.path.join(root, "MANIFEST.json"), "w"), indent=1)
print("claimed:", [c["property_id"] for c in checks])
